#!/bin/bash
# Build the framework offline from files on disk only (all three build profiles) and self-test the model.
set -e
ROOT="$(cd "$(dirname "$0")" && pwd)"
export CARGO_NET_OFFLINE=true
cd "$ROOT/harness"
RUSTFLAGS="--cfg cdshealpix_verif" cargo build --offline --release -q
RUSTFLAGS="--cfg cdshealpix_verif" cargo build --offline --profile chk -q
if grep -qw bmi2 /proc/cpuinfo; then
  RUSTFLAGS="--cfg cdshealpix_verif -C target-feature=+bmi2" cargo build --offline --release -q --target-dir "$ROOT/harness/target-bmi2"
fi
( cd "$ROOT/harness/c20" && RUSTFLAGS="--cfg cdshealpix_verif" cargo build --offline --release -q )
# warm the Miri build of the interpreter (sysroot + crate), used by the C20 check
( cd "$ROOT/harness/c20" && RUSTFLAGS="--cfg cdshealpix_verif" MIRIFLAGS="-Zmiri-seed=0" cargo +nightly miri run --offline -q -- seq "0:L0" >/dev/null 2>&1 ) || echo "warning: cargo +nightly miri not usable, the Miri tier of C20 will be skipped"
"$ROOT/harness/target/release/hpxv" selftest
if [ -x "$ROOT/extra/setup.sh" ]; then "$ROOT/extra/setup.sh"; fi
echo "setup done"
