//! hpxv: property-based / fuzzing harness deciding the properties C01..C20 of cds-healpix-rust.
pub mod engine;
pub mod gens;
pub mod model {
  pub mod bmoc;
  pub mod geom;
  pub mod lattice;
}
pub mod props;
pub mod sut;
