//! C03 -- Cell geometry accessors are mutually consistent and map back to their cell.

use crate::engine::*;
use crate::gens::{self, Pos};
use crate::model::geom;
use crate::model::lattice::{self, Cell};
use crate::sut;
use cdshealpix::compass_point::{Cardinal, CardinalSet};
use cdshealpix::nested;
use proptest::prelude::*;
use serde::{Deserialize, Serialize};
use serde_json::{json, Value};

#[derive(Clone, Debug, Serialize, Deserialize)]
pub struct CellCase {
  pub depth: u8,
  pub cell: Cell,
  /// number of segments used for paths and grid
  pub nseg: u32,
}

#[derive(Clone, Debug, Serialize, Deserialize)]
pub struct OffCase {
  pub depth: u8,
  pub cell: Cell,
  pub dx: f64,
  pub dy: f64,
}

#[derive(Clone, Debug, Serialize, Deserialize)]
pub struct PosCase {
  pub depth: u8,
  pub pos: Pos,
}

#[derive(Clone, Debug, Serialize, Deserialize)]
pub struct Bad {
  pub depth: u8,
  pub hash: u64,
}

pub fn meta() -> PropMeta {
  PropMeta {
    id: "C03",
    rule: "cells: all cells of depth 0..=6 (quick) / 0..=9 (thorough) enumerated for centre / vertices / paths / grid, plus generated (depth 0..=29, cell by class: base-cell corners / borders / one step inside / uniform); offsets: (cell, dx, dy) with dx,dy in [m, 1-m], m = 2^(depth-42), incl. values at m and 1-m; positions: 5-class generator x depth for hash_with_dxdy; non-trivial = cell on a base-cell border or corner, or depth >= 10, or a position of a non-uniform class; distinct by (depth, cell[, offsets]) / (depth, lon bits, lat bits)",
    assumptions: vec![
      "inward nudge of boundary points is done in the projection plane with the harness' reference projection (fraction max(1e-6, 2^(depth-36)) of the way to the cell centre)".into(),
      "tolerances: 1e-13*max(1,|lon|/2pi) rad for position recovery, 1e-15 rad between accessors, 1e-14 rad vs. model vertices, tau for containment; offsets accepted in [-t, 1+t] with t = 1e-9 + 2^-50*nside (the rounding of a plane coordinate times nside)".into(),
    ],
  }
}

fn border(depth: u8, c: &Cell) -> bool {
  let m = (1u32 << depth) - 1;
  c.i == 0 || c.j == 0 || c.i == m || c.j == m
}

fn cf(v: Violation, d: u8, h: u64) -> Violation {
  v.fact("depth", d as f64).fact("hash", h as f64)
}

/// plane image of a sphere point nearest to the given plane centre
fn image_near(lon: f64, lat: f64, xc: f64, yc: f64) -> (f64, f64) {
  let mut best = (f64::INFINITY, (0.0, 0.0));
  for (x, y) in geom::images(lon, lat) {
    let dx = geom::dx_cyc(x, xc);
    let d = dx.abs() + (y - yc).abs();
    if d < best.0 {
      best = (d, (xc + dx, y));
    }
  }
  best.1
}

/// the point moved towards the cell centre (in the plane) by fraction `f`
fn nudged_inward(n: i64, cell: Cell, lon: f64, lat: f64, f: f64) -> (f64, f64) {
  let (xc, yc) = geom::cell_center_plane(n, cell);
  let (x, y) = image_near(lon, lat, xc, yc);
  geom::unproj_ref(x + f * (xc - x), y + f * (yc - y))
}

fn inward_fraction(depth: u8) -> f64 {
  (1e-6f64).max((2.0f64).powi(depth as i32 - 36))
}

const CARD: [&str; 4] = ["S", "E", "N", "W"];

pub fn check_cell(c: &CellCase, rec: &mut Rec) -> Result<(), Violation> {
  let d = c.depth;
  let n = 1i64 << d;
  let cell = c.cell;
  let h = lattice::nested_hash(d, cell);
  rec.eval();
  let b = border(d, &cell);
  rec.class(if b { "base_cell_border" } else { "inner" });
  if b || d >= 10 {
    rec.nontrivial(fp_of(&(d, h)));
  }
  rec.sample(|| json!(c));
  let layer = nested::get_or_create(d);
  let f = |v: Violation| cf(v, d, h);
  // (a) centre
  let ctr = match catch(|| layer.center(h)) {
    Ok(v) => v,
    Err(p) => return Err(f(Violation::new("center", "panic", format!("center({}) at depth {} panicked: {}", h, d, p)))),
  };
  let mc = geom::cell_center_sphere(n, cell);
  let dd = geom::ang_dist(ctr.0, ctr.1, mc.0, mc.1);
  rec.metric_max("center_vs_model_rad", dd);
  if !(dd <= 1e-14) {
    return Err(f(Violation::new("center", "mismatch", format!("depth {}: center({} = {:?}) = {:?}, model {:?} ({:.3e} rad apart)", d, h, cell, ctr, mc, dd))));
  }
  match catch(|| nested::hash(d, ctr.0, ctr.1)) {
    Ok(hh) if hh == h => {}
    Ok(hh) => return Err(f(Violation::new("center_hashes_back", "mismatch", format!("depth {}: hash(center({})) = {}", d, h, hh)))),
    Err(p) => return Err(f(Violation::new("center_hashes_back", "panic", format!("hash(center({})) panicked: {}", h, p)))),
  }
  // (e) vertices
  let vs = match catch(|| layer.vertices(h)) {
    Ok(v) => v,
    Err(p) => return Err(f(Violation::new("vertices", "panic", format!("vertices({}) at depth {} panicked: {}", h, d, p)))),
  };
  let vm = match catch(|| layer.vertices_map(h, CardinalSet::all())) {
    Ok(v) => v,
    Err(p) => return Err(f(Violation::new("vertices", "panic", format!("vertices_map({}) at depth {} panicked: {}", h, d, p)))),
  };
  let mv = geom::cell_vertices_sphere(n, cell);
  for k in 0..4 {
    let v1 = match catch(|| layer.vertex(h, sut::cardinal(k))) {
      Ok(v) => v,
      Err(p) => return Err(f(Violation::new("vertices", "panic", format!("vertex({}, {}) panicked: {}", h, CARD[k], p)))),
    };
    let v2 = match vm.get(sut::cardinal(k)) {
      Some(v) => *v,
      None => return Err(f(Violation::new("vertices", "missing", format!("vertices_map({}, all) has no {} vertex", h, CARD[k])))),
    };
    let d1 = geom::ang_dist(vs[k].0, vs[k].1, v1.0, v1.1);
    let d2 = geom::ang_dist(vs[k].0, vs[k].1, v2.0, v2.1);
    if !(d1 <= 1e-15 && d2 <= 1e-15) {
      return Err(f(Violation::new("vertices", "accessors_disagree", format!("depth {} cell {}: {} vertex: vertices() {:?}, vertex() {:?}, vertices_map() {:?}", d, h, CARD[k], vs[k], v1, v2))));
    }
    let dm = geom::ang_dist(vs[k].0, vs[k].1, mv[k].0, mv[k].1);
    rec.metric_max("vertex_vs_model_rad", dm);
    if !(dm <= 1e-14) {
      return Err(f(Violation::new("vertices", "mismatch", format!("depth {} cell {}: {} vertex {:?}, model {:?} ({:.3e} rad apart)", d, h, CARD[k], vs[k], mv[k], dm))));
    }
  }
  // (c) paths and grid
  let frac = inward_fraction(d);
  let tau = (2.0f64).powi(-44);
  let (xc, yc) = geom::cell_center_plane(n, cell);
  let hw = 1.0 / n as f64;
  let corner = |k: usize| -> (f64, f64) {
    match k {
      0 => (xc, yc - hw),
      1 => (xc + hw, yc),
      2 => (xc, yc + hw),
      _ => (xc - hw, yc),
    }
  };
  let nseg = c.nseg.max(1);
  let check_boundary_point = |what: &str, p: (f64, f64), expect_plane: (f64, f64)| -> Result<(), Violation> {
    let e = geom::unproj_ref(expect_plane.0, expect_plane.1);
    let dd = geom::ang_dist(p.0, p.1, e.0, e.1);
    if !(dd <= 1e-13) {
      return Err(f(Violation::new("paths", "wrong_point", format!("depth {} cell {}: {} returned {:?}, expected {:?} ({:.3e} rad apart)", d, h, what, p, e, dd))));
    }
    let o = geom::outside_by(n, cell, p.0, p.1);
    if !(o.abs() <= tau) {
      return Err(f(Violation::new("paths", "not_on_border", format!("depth {} cell {}: {} point {:?} is {:.3e} plane units off the cell border", d, h, what, p, o))));
    }
    let q = nudged_inward(n, cell, p.0, p.1, frac);
    match catch(|| nested::hash(d, q.0, q.1)) {
      Ok(hh) if hh == h => Ok(()),
      Ok(hh) => Err(f(Violation::new("paths", "nudged_point_elsewhere", format!("depth {} cell {}: {} point {:?} nudged inwards to {:?} hashes to {}", d, h, what, p, q, hh)))),
      Err(pn) => Err(f(Violation::new("paths", "panic", format!("hash panicked on nudged point: {}", pn)))),
    }
  };
  // sides: all 12 ordered pairs of distinct vertices would include diagonals; the property speaks of sides
  for from in 0..4usize {
    for to in [(from + 1) % 4, (from + 3) % 4] {
      for incl in [false, true] {
        let pts = match catch(|| layer.path_along_cell_side(h, &sut::cardinal(from), &sut::cardinal(to), incl, nseg)) {
          Ok(v) => v,
          Err(p) => return Err(f(Violation::new("paths", "panic", format!("path_along_cell_side({}, {}, {}, {}, {}) panicked: {}", h, CARD[from], CARD[to], incl, nseg, p)))),
        };
        let want = nseg as usize + incl as usize;
        if pts.len() != want {
          return Err(f(Violation::new("paths", "wrong_count", format!("path_along_cell_side(.., include_to={}, n_segments={}) returned {} points", incl, nseg, pts.len()))));
        }
        let (a, bb) = (corner(from), corner(to));
        for (k, p) in pts.iter().enumerate() {
          let t = k as f64 / nseg as f64;
          check_boundary_point("path_along_cell_side", *p, (a.0 + t * (bb.0 - a.0), a.1 + t * (bb.1 - a.1)))?;
        }
      }
    }
  }
  for start in 0..4usize {
    for cw in [false, true] {
      let pts = match catch(|| layer.path_along_cell_edge(h, &sut::cardinal(start), cw, nseg)) {
        Ok(v) => v,
        Err(p) => return Err(f(Violation::new("paths", "panic", format!("path_along_cell_edge({}, {}, {}, {}) panicked: {}", h, CARD[start], cw, nseg, p)))),
      };
      if pts.len() != 4 * nseg as usize {
        return Err(f(Violation::new("paths", "wrong_count", format!("path_along_cell_edge(.., n_segments_by_side={}) returned {} points", nseg, pts.len()))));
      }
      for (k, p) in pts.iter().enumerate() {
        let side = k / nseg as usize;
        let t = (k % nseg as usize) as f64 / nseg as f64;
        // clockwise seen from outside the sphere: S -> W -> N -> E
        let v0 = if cw { (start + 4 - side) % 4 } else { (start + side) % 4 };
        let v1 = if cw { (v0 + 3) % 4 } else { (v0 + 1) % 4 };
        let (a, bb) = (corner(v0), corner(v1));
        check_boundary_point("path_along_cell_edge", *p, (a.0 + t * (bb.0 - a.0), a.1 + t * (bb.1 - a.1)))?;
      }
    }
  }
  let ng = (nseg as u16).min(6);
  let g = match catch(|| layer.grid(h, ng)) {
    Ok(v) => v,
    Err(p) => return Err(f(Violation::new("grid", "panic", format!("grid({}, {}) panicked: {}", h, ng, p)))),
  };
  let np = ng as usize + 1;
  if g.len() != np * np {
    return Err(f(Violation::new("grid", "wrong_count", format!("grid({}, {}) returned {} points", h, ng, g.len()))));
  }
  for i in 0..np {
    for j in 0..np {
      let (x, y) = (i as f64 / ng as f64, j as f64 / ng as f64);
      let e = geom::unproj_ref(xc + (x - y) * hw, yc + (x + y - 1.0) * hw);
      let p = g[i * np + j];
      let dd = geom::ang_dist(p.0, p.1, e.0, e.1);
      if !(dd <= 1e-13) {
        return Err(f(Violation::new("grid", "wrong_point", format!("depth {} cell {}: grid point ({}, {}) of {} is {:?}, expected {:?}", d, h, i, j, ng, p, e))));
      }
      let q = nudged_inward(n, cell, p.0, p.1, frac);
      match catch(|| nested::hash(d, q.0, q.1)) {
        Ok(hh) if hh == h => {}
        Ok(hh) => return Err(f(Violation::new("grid", "nudged_point_elsewhere", format!("depth {} cell {}: grid point ({}, {}) {:?} nudged inwards to {:?} hashes to {}", d, h, i, j, p, q, hh)))),
        Err(pn) => return Err(f(Violation::new("grid", "panic", format!("hash panicked on nudged grid point: {}", pn)))),
      }
    }
  }
  Ok(())
}

pub fn check_off(c: &OffCase, rec: &mut Rec) -> Result<(), Violation> {
  let d = c.depth;
  let h = lattice::nested_hash(d, c.cell);
  rec.eval();
  let b = border(d, &c.cell);
  rec.class(if b { "base_cell_border" } else { "inner" });
  if b || d >= 10 {
    rec.nontrivial(fp_of(&(d, h, c.dx.to_bits(), c.dy.to_bits())));
  }
  rec.sample(|| json!(c));
  let f = |v: Violation| cf(v, d, h).fact("dx", c.dx).fact("dy", c.dy);
  let p = match catch(|| nested::sph_coo(d, h, c.dx, c.dy)) {
    Ok(v) => v,
    Err(p) => return Err(f(Violation::new("sph_coo", "panic", format!("sph_coo({}, {}, {:e}, {:e}) panicked: {}", d, h, c.dx, c.dy, p)))),
  };
  match catch(|| nested::hash(d, p.0, p.1)) {
    Ok(hh) if hh == h => {}
    Ok(hh) => return Err(f(Violation::new("sph_coo_hashes_back", "mismatch", format!("depth {}: hash(sph_coo({}, {:e}, {:e}) = {:?}) = {}", d, h, c.dx, c.dy, p, hh)))),
    Err(pn) => return Err(f(Violation::new("sph_coo_hashes_back", "panic", format!("hash panicked: {}", pn)))),
  }
  // model position of the offset point
  let n = 1i64 << d;
  let (xc, yc) = geom::cell_center_plane(n, c.cell);
  let hw = 1.0 / n as f64;
  let e = geom::unproj_ref(xc + (c.dx - c.dy) * hw, yc + (c.dx + c.dy - 1.0) * hw);
  let dd = geom::ang_dist(p.0, p.1, e.0, e.1);
  rec.metric_max("sph_coo_vs_model_rad", dd);
  if !(dd <= 1e-13) {
    return Err(f(Violation::new("sph_coo", "mismatch", format!("depth {}: sph_coo({}, {:e}, {:e}) = {:?}, model {:?}", d, h, c.dx, c.dy, p, e))));
  }
  Ok(())
}

pub fn check_pos(c: &PosCase, rec: &mut Rec) -> Result<(), Violation> {
  let d = c.depth;
  let n = 1i64 << d;
  let (lon, lat) = (c.pos.lon, c.pos.lat);
  rec.eval();
  rec.class(&c.pos.class);
  if c.pos.is_special() || d >= 10 {
    rec.nontrivial(fp_of(&(d, lon.to_bits(), lat.to_bits())));
  }
  rec.sample(|| json!(c));
  let seam = {
    let t = (lon * 4.0 / std::f64::consts::PI).rem_euclid(2.0);
    t.min(2.0 - t)
  };
  let f = |v: Violation| super::c01::facts(v, d, lon, lat).fact("seam_dist", seam);
  let (h, dx, dy) = match catch(|| nested::hash_with_dxdy(d, lon, lat)) {
    Ok(v) => v,
    Err(p) => return Err(f(Violation::new("dxdy_total", "panic", format!("hash_with_dxdy({}, {:e}, {:e}) panicked: {}", d, lon, lat, p)))),
  };
  if h >= lattice::n_hash(d) {
    return Err(f(Violation::new("dxdy_range", "hash_out_of_range", format!("hash_with_dxdy({}, {:e}, {:e}) = ({}, {:e}, {:e})", d, lon, lat, h, dx, dy))));
  }
  let cell = lattice::nested_decode(d, h);
  let out = geom::outside_by(n, cell, lon, lat);
  let tau = geom::tau(lon);
  if !(out <= tau) {
    return Err(f(Violation::new(
      "dxdy_contains",
      "not_contained",
      format!("hash_with_dxdy({}, {:e}, {:e}) = ({}, {:e}, {:e}): the position is {:.3e} cell half-diagonals outside cell {} = {:?}", d, lon, lat, h, dx, dy, out * n as f64, h, cell),
    )
    .fact("outside_cells", out * n as f64)));
  }
  if let Ok(h0) = catch(|| nested::hash(d, lon, lat)) {
    if h0 != h && geom::dist_to_border(n, lon, lat) > 4.0 * tau {
      return Err(f(Violation::new("dxdy_hash", "differs_from_hash", format!("hash_with_dxdy({}, {:e}, {:e}) gives cell {} but hash gives {} and the position is not on a border", d, lon, lat, h, h0))));
    }
  }
  // offsets carry the rounding of the plane coordinates (ulp(8) = 2^-50) multiplied by nside
  let otol = 1e-9 + (2.0f64).powi(-50) * n as f64;
  if !(dx.is_finite() && dy.is_finite() && dx >= -otol && dx <= 1.0 + otol && dy >= -otol && dy <= 1.0 + otol) {
    return Err(f(Violation::new("dxdy_range", "offsets_out_of_range", format!("hash_with_dxdy({}, {:e}, {:e}) = ({}, {:e}, {:e})", d, lon, lat, h, dx, dy))));
  }
  let tol = 1e-13 * (lon.abs() / geom::TWO_PI).max(1.0);
  let (xc, yc) = geom::cell_center_plane(n, cell);
  let hw = 1.0 / n as f64;
  let e = geom::unproj_ref(xc + (dx - dy) * hw, yc + (dx + dy - 1.0) * hw);
  let dd = geom::ang_dist(lon, lat, e.0, e.1);
  rec.metric_max("offsets_recover_over_tol", dd / tol);
  if !(dd <= tol) {
    return Err(f(Violation::new("dxdy_recovers", "too_far", format!("hash_with_dxdy({}, {:e}, {:e}) = ({}, {:e}, {:e}): these offsets designate {:?}, {:.3e} rad away", d, lon, lat, h, dx, dy, e, dd))));
  }
  if dx >= 0.0 && dx < 1.0 && dy >= 0.0 && dy < 1.0 {
    let p = match catch(|| nested::sph_coo(d, h, dx, dy)) {
      Ok(v) => v,
      Err(pn) => return Err(f(Violation::new("sph_coo", "panic", format!("sph_coo({}, {}, {:e}, {:e}) panicked: {}", d, h, dx, dy, pn)))),
    };
    let dd = geom::ang_dist(lon, lat, p.0, p.1);
    if !(dd <= tol) {
      return Err(f(Violation::new("sph_coo_inverts", "too_far", format!("sph_coo(hash_with_dxdy({}, {:e}, {:e}) = ({}, {:e}, {:e})) = {:?}, {:.3e} rad away", d, lon, lat, h, dx, dy, p, dd))));
    }
  }
  Ok(())
}

pub fn check_bad(c: &Bad, rec: &mut Rec) -> Result<(), Violation> {
  rec.eval();
  rec.nontrivial(fp_of(&(c.depth, c.hash)));
  rec.sample(|| json!(c));
  let (d, h) = (c.depth, c.hash);
  let layer = nested::get_or_create(d);
  let f = |name: &str| cf(Violation::new("rejects_hash", "no_panic", format!("{} accepted the out-of-range cell {} at depth {}", name, h, d)), d, h);
  if catch(|| layer.center(h)).is_ok() {
    return Err(f("center"));
  }
  if catch(|| layer.center_of_projected_cell(h)).is_ok() {
    return Err(f("center_of_projected_cell"));
  }
  if catch(|| layer.sph_coo(h, 0.5, 0.5)).is_ok() {
    return Err(f("sph_coo"));
  }
  if catch(|| layer.vertex(h, Cardinal::S)).is_ok() {
    return Err(f("vertex"));
  }
  if catch(|| layer.vertices(h)).is_ok() {
    return Err(f("vertices"));
  }
  if catch(|| layer.vertices_map(h, CardinalSet::all())).is_ok() {
    return Err(f("vertices_map"));
  }
  if catch(|| layer.path_along_cell_side(h, &Cardinal::S, &Cardinal::E, true, 2)).is_ok() {
    return Err(f("path_along_cell_side"));
  }
  if catch(|| layer.path_along_cell_edge(h, &Cardinal::S, true, 2)).is_ok() {
    return Err(f("path_along_cell_edge"));
  }
  if catch(|| layer.grid(h, 2)).is_ok() {
    return Err(f("grid"));
  }
  Ok(())
}

fn strat_cell() -> BoxedStrategy<CellCase> {
  (gens::depth_and_cell(), prop_oneof![3 => 1u32..=5, 2 => 6u32..=24, 1 => prop::sample::select(vec![31u32, 32, 33, 50, 64, 100])]).prop_map(|((depth, cell), nseg)| CellCase { depth, cell, nseg }).boxed()
}

fn strat_off() -> BoxedStrategy<OffCase> {
  gens::depth_and_cell()
    .prop_flat_map(|(depth, cell)| {
      let m = (2.0f64).powi(depth as i32 - 42);
      let o = move || prop_oneof![2 => Just(m), 2 => Just(1.0 - m), 1 => Just(0.5), 5 => (m..=(1.0 - m))];
      (o(), o()).prop_map(move |(dx, dy)| OffCase { depth, cell, dx, dy })
    })
    .boxed()
}

fn strat_pos() -> BoxedStrategy<PosCase> {
  (gens::depth(), gens::position()).prop_map(|(depth, pos)| PosCase { depth, pos }).boxed()
}

fn strat_bad() -> BoxedStrategy<Bad> {
  (gens::depth(), gens::invalid_hash_parts())
    .prop_map(|(depth, (how, a, b))| Bad { depth, hash: gens::make_invalid_hash(lattice::n_hash(depth), 2 * depth as u32, how, a, b) })
    .boxed()
}

pub fn run(ctx: &Ctx, rep: &mut Report) {
  let maxd = ctx.tier.pick(6u8, 9u8);
  for d in 0..=maxd {
    ctx.run_enum(rep, &format!("all_cells_d{}", d), lattice::n_hash(d), |h| CellCase { depth: d, cell: lattice::nested_decode(d, h), nseg: [1u32, 2, 3, 5, 6, 7, 12][(h % 7) as usize] }, check_cell);
  }
  let f = if ctx.profile == "release" { 1 } else { 4 };
  ctx.run_random(rep, "cells", strat_cell, ctx.tier.pick(150_000, 6_000_000) / f, check_cell);
  ctx.run_random(rep, "offsets", strat_off, ctx.tier.pick(3_000_000, 150_000_000) / f, check_off);
  ctx.run_random(rep, "positions", strat_pos, ctx.tier.pick(5_000_000, 250_000_000) / f, check_pos);
  ctx.run_random(rep, "out_of_range", strat_bad, ctx.tier.pick(20_000, 500_000), check_bad);
}

pub fn replay(ctx: &Ctx, rep: &mut Report, section: &str, case: &Value) -> Result<(), String> {
  match section {
    "offsets" => ctx.run_one(rep, section, &super::de::<OffCase>(case)?, check_off),
    "positions" => ctx.run_one(rep, section, &super::de::<PosCase>(case)?, check_pos),
    "out_of_range" => ctx.run_one(rep, section, &super::de::<Bad>(case)?, check_bad),
    _ => ctx.run_one(rep, section, &super::de::<CellCase>(case)?, check_cell),
  }
  Ok(())
}
