//! C16 -- Cell-size helper bounds really are bounds.

use crate::engine::*;
use crate::gens::{self, Pos};
use crate::model::geom;
use crate::model::lattice::{self, Cell};
use cdshealpix::nested;
use proptest::prelude::*;
use serde::{Deserialize, Serialize};
use serde_json::{json, Value};

#[derive(Clone, Debug, Serialize, Deserialize)]
pub struct CellCase {
  pub depth: u8,
  pub cell: Cell,
}

#[derive(Clone, Debug, Serialize, Deserialize)]
pub struct PosCase {
  pub depth: u8,
  pub pos: Pos,
}

#[derive(Clone, Debug, Serialize, Deserialize)]
pub struct RadCase {
  pub depth: u8,
  pub pos: Pos,
  pub radius: f64,
  /// witnesses: (fraction of the radius, azimuth)
  pub wit: Vec<(f64, f64)>,
}

#[derive(Clone, Debug, Serialize, Deserialize)]
pub struct BsdCase {
  pub k: u8,
  pub rel: f64,
  pub pos: Pos,
  pub az: Vec<f64>,
}

pub fn meta() -> PropMeta {
  PropMeta {
    id: "C16",
    rule: "(1) all cell centres of depth 0..=7 (quick) / 0..=9 (thorough) enumerated + centres of generated (depth 0..=29, cell by class): bound at the cell centre vs. model centre-to-vertex distance of that cell; (2) generated (depth, position, radius log-uniform in [1e-8, pi], witnesses within the radius): bound and array variant vs. the model distance of every witnessed cell whose centre is within the radius; (3) the 30 thresholds of best_starting_depth located by bisection vs. the documented geometric quantity recomputed by the model, monotonicity, has_best_starting_depth, refusal of large radii, and the geometric claim on generated (threshold index, radius within 3% of the threshold, centre, rim azimuths); non-trivial = position near the transition latitude (|lat| within 0.05 of asin(2/3)), a pole or of a non-uniform class, radius reaching a polar cap, or radius within 3% of a threshold; distinct by the case bits",
    assumptions: vec![
      "slack on the bounds: relative 1e-10 (calibrated: min observed ratio 1 - 1e-14 at depth <= 7) plus 1e-15 rad absolute, the resolution of the model distances (positions are known to ~1e-16 rad)".into(),
      "cells 'within the radius' are reached through sampled witness points; the witness is mapped to its cell with nested::hash (property C01)".into(),
    ],
  }
}

const REL: f64 = 1e-10;
/// absolute resolution of the model's distances (positions are known to ~1e-16 rad)
const ABS: f64 = 1e-15;

fn near_special(lat: f64) -> bool {
  (lat.abs() - geom::transition_latitude()).abs() < 0.05 || lat.abs() > 1.5
}

pub fn check_cell(c: &CellCase, rec: &mut Rec) -> Result<(), Violation> {
  let d = c.depth;
  let n = 1i64 << d;
  rec.eval();
  let (lon, lat) = geom::cell_center_sphere(n, c.cell);
  if near_special(lat) {
    rec.nontrivial(fp_of(&(d, c.cell)));
  }
  rec.sample(|| json!(c));
  let truth = geom::c2v_model(n, c.cell);
  let b = match catch(|| cdshealpix::largest_center_to_vertex_distance(d, lon, lat)) {
    Ok(v) => v,
    Err(p) => return Err(Violation::new("c2v_bound", "panic", format!("largest_center_to_vertex_distance({}, {:e}, {:e}) panicked: {}", d, lon, lat, p))),
  };
  rec.metric_min("bound_over_truth", b / truth);
  if !(b >= truth * (1.0 - REL) - ABS) {
    return Err(
      Violation::new("c2v_bound", "not_a_bound", format!("largest_center_to_vertex_distance({}, {:e}, {:e}) = {:e} but cell {:?} has a vertex {:e} rad from its centre (ratio {})", d, lon, lat, b, c.cell, truth, b / truth))
        .fact("depth", d as f64)
        .fact("lat", lat)
        .fact("abs_lat", lat.abs()),
    );
  }
  Ok(())
}

pub fn check_pos(c: &PosCase, rec: &mut Rec) -> Result<(), Violation> {
  let d = c.depth;
  let n = 1i64 << d;
  let (lon, lat) = (c.pos.lon, c.pos.lat);
  rec.eval();
  rec.class(&c.pos.class);
  if near_special(lat) || c.pos.is_special() {
    rec.nontrivial(fp_of(&(d, lon.to_bits(), lat.to_bits())));
  }
  rec.sample(|| json!(c));
  let h = match catch(|| nested::hash(d, lon, lat)) {
    Ok(h) => h,
    Err(_) => return Ok(()),
  };
  let cell = lattice::nested_decode(d, h);
  let truth = geom::c2v_model(n, cell);
  let b = match catch(|| cdshealpix::largest_center_to_vertex_distance(d, lon, lat)) {
    Ok(v) => v,
    Err(p) => return Err(super::c01::facts(Violation::new("c2v_bound", "panic", format!("largest_center_to_vertex_distance({}, {:e}, {:e}) panicked: {}", d, lon, lat, p)), d, lon, lat)),
  };
  rec.metric_min("bound_over_truth", b / truth);
  if !(b >= truth * (1.0 - REL) - ABS) {
    return Err(super::c01::facts(
      Violation::new("c2v_bound", "not_a_bound", format!("largest_center_to_vertex_distance({}, {:e}, {:e}) = {:e} but the cell at that position ({} = {:?}) has a vertex {:e} rad from its centre (ratio {})", d, lon, lat, b, h, cell, truth, b / truth)),
      d,
      lon,
      lat,
    ));
  }
  Ok(())
}

pub fn check_radius(c: &RadCase, rec: &mut Rec) -> Result<(), Violation> {
  let d = c.depth;
  let n = 1i64 << d;
  let (lon, lat, r) = (c.pos.lon, c.pos.lat, c.radius);
  rec.eval();
  let reaches_cap = lat.abs() + r >= geom::transition_latitude();
  rec.class(if reaches_cap { "reaches_polar_cap" } else { "equatorial_only" });
  if reaches_cap || c.pos.is_special() {
    rec.nontrivial(fp_of(&(d, lon.to_bits(), lat.to_bits(), r.to_bits())));
  }
  rec.sample(|| json!({"depth": d, "pos": c.pos, "radius": r, "n_witnesses": c.wit.len()}));
  let f = |v: Violation| super::c01::facts(v, d, lon, lat).fact("radius", r).fact("lat_plus_r", lat.abs() + r);
  let b = match catch(|| cdshealpix::largest_center_to_vertex_distance_with_radius(d, lon, lat, r)) {
    Ok(v) => v,
    Err(p) => return Err(f(Violation::new("c2v_with_radius", "panic", format!("largest_center_to_vertex_distance_with_radius({}, {:e}, {:e}, {:e}) panicked: {}", d, lon, lat, r, p)))),
  };
  // array variant: entry k <-> depth from + k, length to - from; usually the 4 depths around d,
  // sometimes the long spans the cone code itself asks for (from 0 / up to depth 29)
  let (from, to) = match c.wit.len() % 8 {
    0 => (0u8, (d + 1).min(30)),
    1 => (d, 30u8),
    _ => (d.saturating_sub(2), (d + 2).min(30)),
  };
  let arr = match catch(|| cdshealpix::largest_center_to_vertex_distances_with_radius(from, to, lon, lat, r)) {
    Ok(v) => v,
    Err(p) => return Err(f(Violation::new("c2v_with_radius_array", "panic", format!("largest_center_to_vertex_distances_with_radius({}, {}, {:e}, {:e}, {:e}) panicked: {}", from, to, lon, lat, r, p)))),
  };
  if arr.len() != (to - from) as usize {
    return Err(f(Violation::new("c2v_with_radius_array", "wrong_length", format!("largest_center_to_vertex_distances_with_radius({}, {}, ..) has {} entries", from, to, arr.len()))));
  }
  // witnesses: the position, random points of the cone, points near the rim in 16 directions (the
  // northern / southern extremes and the largest longitude excursions are among them), and the cells
  // next to the 8 three-cell points
  let mut pts: Vec<(f64, f64)> = vec![(lon, lat)];
  for &(fr, az) in &c.wit {
    pts.push(geom::point_at(lon, lat, r * fr, az));
  }
  for k in 0..16 {
    let az = k as f64 * std::f64::consts::PI / 8.0;
    pts.push(geom::point_at(lon, lat, r * 0.999, az));
    pts.push(geom::point_at(lon, lat, r * 0.9, az));
  }
  let tl = geom::transition_latitude();
  let mut compared = 0u32;
  // depths judged: d with every witness (both variants), the other entries of the array with a few
  for dk in from..to {
    let nk = 1i64 << dk;
    let val_arr = arr[(dk - from) as usize];
    let mut ptsk: Vec<(f64, f64)> = if dk == d { pts.clone() } else { pts.iter().take(9).cloned().collect() };
    let e = 0.2 / nk as f64;
    for q in 0..4 {
      for s in [-1.0f64, 1.0] {
        for side in [-1.0f64, 1.0] {
          ptsk.push(((q as f64 * geom::HALF_PI + side * e).rem_euclid(geom::TWO_PI), s * (tl + e)));
        }
      }
    }
    for (wl, wb) in ptsk {
      let h = match catch(|| nested::hash(dk, wl, wb)) {
        Ok(h) => h,
        Err(_) => continue,
      };
      let cell = lattice::nested_decode(dk, h);
      let (cl, cb) = geom::cell_center_sphere(nk, cell);
      if geom::ang_dist(cl, cb, lon, lat) > r {
        continue; // the centre of that cell is not within the radius
      }
      compared += 1;
      let truth = geom::c2v_model(nk, cell);
      let mut vals = vec![("largest_center_to_vertex_distances_with_radius", val_arr)];
      if dk == d {
        rec.metric_min("bound_over_truth", b / truth);
        vals.push(("largest_center_to_vertex_distance_with_radius", b));
      }
      for (name, val) in vals {
        if !(val >= truth * (1.0 - REL) - ABS) {
          return Err(f(Violation::new(
            if name.ends_with("distance_with_radius") { "c2v_with_radius" } else { "c2v_with_radius_array" },
            "not_a_bound",
            format!("{}(depth {}, {:e}, {:e}, r={:e}) = {:e} but cell {} = {:?}, whose centre ({:e}, {:e}) is within the radius, has a vertex {:e} rad from its centre (ratio {})", name, dk, lon, lat, r, val, h, cell, cl, cb, truth, val / truth),
          )
          .fact("cell_abs_lat", cb.abs())
          .fact("entry_depth", dk as f64)));
        }
      }
    }
  }
  rec.class(if compared > 0 { "some_cell_centre_within_radius" } else { "no_cell_centre_within_radius" });
  Ok(())
}

/// threshold k of best_starting_depth located by bisection on the function itself
pub fn threshold_by_bisection(k: u8) -> f64 {
  // bsd(r) >= k  <=>  r < T[k]
  let (mut lo, mut hi) = (0.0f64, 2.0f64);
  let ge = |r: f64| -> bool {
    match catch(|| cdshealpix::best_starting_depth(r)) {
      Ok(d) => d >= k,
      Err(_) => false,
    }
  };
  for _ in 0..200 {
    let mid = 0.5 * (lo + hi);
    if mid == lo || mid == hi {
      break;
    }
    if ge(mid) {
      lo = mid;
    } else {
      hi = mid;
    }
  }
  hi
}

/// The documented quantity: smallest distance between the W vertex of cell (b=0, i=0, j=nside-1)
/// [the point (lon 0, transition latitude)] and its (opposite) north-east edge.
pub fn model_threshold(depth: u8) -> f64 {
  let n = 1i64 << depth;
  let cell = Cell { b: 0, i: 0, j: (n - 1) as u32 };
  let (xc, yc) = geom::cell_center_plane(n, cell);
  let hw = 1.0 / n as f64;
  let w = geom::unproj_ref(xc - hw, yc);
  let dist = |t: f64| {
    // NE edge from E (xc+hw, yc) to N (xc, yc+hw)
    let p = geom::unproj_ref(xc + hw * (1.0 - t), yc + hw * t);
    geom::ang_dist(w.0, w.1, p.0, p.1)
  };
  // coarse scan then golden section
  let mut best_t = 0.0;
  let mut best = f64::INFINITY;
  for k in 0..=1000 {
    let t = k as f64 / 1000.0;
    let v = dist(t);
    if v < best {
      best = v;
      best_t = t;
    }
  }
  let (mut a, mut b) = ((best_t - 0.001).max(0.0), (best_t + 0.001).min(1.0));
  let gr = 0.618_033_988_749_894_9;
  for _ in 0..200 {
    let c = b - gr * (b - a);
    let dd = a + gr * (b - a);
    if dist(c) < dist(dd) {
      b = dd;
    } else {
      a = c;
    }
  }
  dist(0.5 * (a + b)).min(best)
}

/// Geometric claim: at depth best_starting_depth(r) a cone of radius r stays within the cell of its
/// centre and that cell's neighbours.
pub fn check_bsd(c: &BsdCase, rec: &mut Rec) -> Result<(), Violation> {
  rec.eval();
  let t = threshold_by_bisection(c.k);
  let r = t * c.rel;
  let (lon, lat) = (c.pos.lon, c.pos.lat);
  rec.class(&c.pos.class);
  rec.class(&format!("k{}", c.k / 5 * 5));
  rec.nontrivial(fp_of(&(c.k, c.rel.to_bits(), lon.to_bits(), lat.to_bits())));
  rec.sample(|| json!({"k": c.k, "rel": c.rel, "pos": c.pos, "n_azimuths": c.az.len()}));
  // the known finding D17 is keyed on the radius relative to the limit recomputed by the model
  let f = |v: Violation| super::c01::facts(v, c.k, lon, lat).fact("radius", r).fact("rel", super::cone_common::rel_to_model_limit(r)).fact("rel_to_table", c.rel);
  if r >= threshold_by_bisection(0) {
    return Ok(());
  }
  let d = match catch(|| cdshealpix::best_starting_depth(r)) {
    Ok(d) => d,
    Err(p) => return Err(f(Violation::new("bsd_total", "panic", format!("best_starting_depth({:e}) panicked: {}", r, p)))),
  };
  let want = if c.rel < 1.0 { c.k } else { c.k.saturating_sub(1) };
  if d != want && c.k > 0 {
    return Err(f(Violation::new("bsd_value", "mismatch", format!("best_starting_depth({:e}) = {} but the radius is {} x threshold {} = {:e}", r, d, c.rel, c.k, t))));
  }
  let n = 1i64 << d;
  let h0 = match catch(|| nested::hash(d, lon, lat)) {
    Ok(h) => h,
    Err(_) => return Ok(()),
  };
  let nb = lattice::neighbours(n, lattice::nested_decode(d, h0)).map_err(|e| Violation::new("harness", "model_error", e.0))?;
  let allowed: Vec<u64> = nb.iter().filter_map(|x| x.map(|c| lattice::nested_hash(d, c))).collect();
  for &az in &c.az {
    // 1e-9 relative inside the rim, and 1e-15 rad more: positions (the witness, the cell borders)
    // are only known to ~1e-16 rad, which is 4e-8 r at depth 28
    let (wl, wb) = geom::point_at(lon, lat, (r * (1.0 - 1e-9) - 1e-15).max(0.0), az);
    let hw = match catch(|| nested::hash(d, wl, wb)) {
      Ok(h) => h,
      Err(_) => continue,
    };
    if !allowed.contains(&hw) {
      return Err(f(Violation::new(
        "bsd_geometric_claim",
        "cone_leaves_9_cells",
        format!("best_starting_depth({:e}) = {}: the point ({:e}, {:e}) at distance r(1-1e-9) - 1e-15 from the centre ({:e}, {:e}) is in cell {}, which is neither the centre's cell {} nor one of its neighbours {:?}", r, d, wl, wb, lon, lat, hw, h0, allowed),
      )
      .fact("bsd", d as f64)));
    }
  }
  Ok(())
}

/// The table itself: thresholds vs. the model, monotonicity, has_best_starting_depth, refusal.
pub fn check_table(_c: &u8, rec: &mut Rec) -> Result<(), Violation> {
  let mut prev = f64::INFINITY;
  for k in 0..30u8 {
    rec.eval();
    rec.nontrivial(fp_of(&(k, 77u8)));
    let t = threshold_by_bisection(k);
    let m = model_threshold(k);
    rec.metric_max("threshold_rel_err_over_tol", ((t - m) / m).abs() / (1e-9 + 1e-15 / m));
    // the model evaluates distances between points known to ~1e-16 rad: relative resolution 1e-15/T
    let rtol = 1e-9 + 1e-15 / m;
    if !(((t - m) / m).abs() <= rtol) {
      return Err(Violation::new("bsd_table", "threshold_mismatch", format!("threshold {} of best_starting_depth is {:e} but the documented geometric quantity (smallest edge-to-opposite-edge distance of cell (0, x=0, y=nside-1)) is {:e}", k, t, m)).fact("k", k as f64));
    }
    if !(t < prev) {
      return Err(Violation::new("bsd_table", "not_decreasing", format!("threshold {} = {:e} is not below threshold {} = {:e}", k, t, k as i32 - 1, prev)).fact("k", k as f64));
    }
    prev = t;
  }
  let t0 = threshold_by_bisection(0);
  for r in [t0 * 0.999999, geom::next_down(t0)] {
    if !cdshealpix::has_best_starting_depth(r) || catch(|| cdshealpix::best_starting_depth(r)).is_err() {
      return Err(Violation::new("bsd_table", "refuses_valid", format!("radius {:e} is below the depth-0 limit {:e} but is refused", r, t0)));
    }
  }
  for r in [t0, t0 * 1.000001, 1.0, 2.0, std::f64::consts::PI, f64::INFINITY] {
    rec.eval();
    if cdshealpix::has_best_starting_depth(r) || catch(|| cdshealpix::best_starting_depth(r)).is_ok() {
      return Err(Violation::new("bsd_table", "accepts_large", format!("radius {:e} is not below the depth-0 limit {:e} but is accepted", r, t0)));
    }
  }
  Ok(())
}

/// monotonicity of best_starting_depth on generated radii
pub fn check_mono(c: &(f64, f64), rec: &mut Rec) -> Result<(), Violation> {
  rec.eval();
  let (a, b) = if c.0 <= c.1 { (c.0, c.1) } else { (c.1, c.0) };
  rec.nontrivial(fp_f64s(&[a, b]));
  rec.sample(|| json!(c));
  let (da, db) = (catch(|| cdshealpix::best_starting_depth(a)), catch(|| cdshealpix::best_starting_depth(b)));
  // has_best_starting_depth announces exactly the refusals
  for (r, res) in [(a, &da), (b, &db)] {
    if let Ok(has) = catch(|| cdshealpix::has_best_starting_depth(r)) {
      if has != res.is_ok() {
        return Err(Violation::new("bsd_monotone", "has_bsd_disagrees", format!("has_best_starting_depth({:e}) = {} but best_starting_depth {}", r, has, if res.is_ok() { "returns a depth" } else { "panics" })));
      }
    }
  }
  match (da, db) {
    (Ok(da), Ok(db)) => {
      if da < db {
        return Err(Violation::new("bsd_monotone", "increasing", format!("best_starting_depth({:e}) = {} < best_starting_depth({:e}) = {}", a, da, b, db)));
      }
    }
    (Err(_), Ok(db)) => return Err(Violation::new("bsd_monotone", "refuses_smaller", format!("best_starting_depth({:e}) refused but best_starting_depth({:e}) = {}", a, b, db))),
    _ => {}
  }
  Ok(())
}

fn strat_cellc() -> BoxedStrategy<CellCase> {
  gens::depth_and_cell().prop_map(|(depth, cell)| CellCase { depth, cell }).boxed()
}

#[allow(dead_code)]
fn strat_pos() -> BoxedStrategy<PosCase> {
  (gens::depth(), gens::position()).prop_map(|(depth, pos)| PosCase { depth, pos }).boxed()
}

fn radius() -> BoxedStrategy<f64> {
  prop_oneof![
    4 => (-8.0f64..0.497).prop_map(|u| (10.0f64).powf(u)),
    1 => (0.5f64..std::f64::consts::PI),
    // a few cells of a depth 0..=29 (so that cell centres do fall within the radius at the deep depths too)
    2 => (0u32..=29, 0.3f64..6.0).prop_map(|(k, f)| (f * 1.0 / (1u64 << k) as f64).min(3.0)),
    1 => (0.0f64..0.2).prop_map(|x| 1e-3 + x),
  ]
  .boxed()
}

fn strat_rad() -> BoxedStrategy<RadCase> {
  let generic = (gens::depth(), gens::position_principal(), radius(), prop::collection::vec((0.0f64..=1.0, 0.0f64..geom::TWO_PI), 8..24))
    .prop_map(|(depth, pos, radius, wit)| RadCase { depth, pos, radius, wit });
  prop_oneof![4 => generic, 1 => strat_rad_corner()].boxed()
}

/// Directed class: the cone reaches one of the 16 corner cells of the polar-cap base cells (centre on
/// the transition latitude, next to a meridian k pi/2: the cells for which the bound has no slack)
/// with the very end of its longitude extent -- the point of the rim of largest longitude excursion
/// is placed a relative 1e-9 .. 1e-1 beyond the centre of that cell.  This is where the longitude
/// extent of the cone (`cone_max_dlon`) is the binding term of the bound.
fn strat_rad_corner() -> BoxedStrategy<RadCase> {
  (gens::depth(), 0u8..4, any::<bool>(), any::<bool>(), any::<bool>(), -3.0f64..-0.05, -9.0f64..-1.0, prop::collection::vec((0.0f64..=1.0, 0.0f64..geom::TWO_PI), 8..16))
    .prop_map(|(depth, q, south, east_corner, from_west, lr, leps, wit)| {
      let n = 1i64 << depth;
      let m = (n - 1) as u32;
      let cell = Cell { b: if south { 8 + q } else { q }, i: if east_corner { m } else { 0 }, j: if east_corner { 0 } else { m } };
      let (cl, cb) = geom::cell_center_sphere(n, cell);
      let r = (10.0f64).powf(lr);
      let eps = (10.0f64).powf(leps);
      // centre latitude such that the point of largest longitude excursion of the rim is at latitude cb
      let phi = (cb.sin() * r.cos()).asin();
      let dlon = (r.sin() / phi.cos()).min(1.0).asin();
      let lon = if from_west { cl - dlon * (1.0 - eps) } else { cl + dlon * (1.0 - eps) };
      RadCase { depth, pos: Pos::new(lon.rem_euclid(geom::TWO_PI), phi, "extreme_lon_at_corner_cell"), radius: r, wit }
    })
    .boxed()
}

fn strat_bsd() -> BoxedStrategy<BsdCase> {
  let rel = prop_oneof![3 => 0.97f64..1.0, 1 => Just(0.999999999), 2 => 0.5f64..0.97, 1 => 1.0f64..1.03, 1 => Just(1.0f64)];
  (0u8..30, rel, gens::position_principal(), prop::collection::vec(0.0f64..geom::TWO_PI, 16..40))
    .prop_map(|(k, rel, pos, mut az)| {
      for q in 0..8 {
        az.push(q as f64 * std::f64::consts::PI / 4.0);
      }
      BsdCase { k, rel, pos, az }
    })
    .boxed()
}

fn strat_mono() -> BoxedStrategy<(f64, f64)> {
  let r = || {
    prop_oneof![
      4 => (-10.0f64..0.6).prop_map(|u| (10.0f64).powf(u)),
      // on and next to the limits as the function itself places them (entry 0 included: the refusal starts there)
      2 => (0u8..30, -2i32..=2).prop_map(|(k, n)| geom::nudge(threshold_by_bisection(k), n)),
    ]
  };
  (r(), r()).boxed()
}

pub fn run(ctx: &Ctx, rep: &mut Report) {
  let maxd = ctx.tier.pick(7u8, 9u8);
  for d in 0..=maxd {
    ctx.run_enum(rep, &format!("all_centres_d{}", d), lattice::n_hash(d), |h| CellCase { depth: d, cell: lattice::nested_decode(d, h) }, check_cell);
  }
  // deeper depths: centres of cells chosen by class (the first claim quantifies over cells: the helper
  // documents "a cell center around the given position")
  ctx.run_random(rep, "deep_cell_centres", strat_cellc, ctx.tier.pick(3_000_000, 150_000_000), check_cell);
  ctx.run_random(rep, "with_radius", strat_rad, ctx.tier.pick(500_000, 25_000_000), check_radius);
  ctx.run_enum(rep, "bsd_table", 1, |_| 0u8, check_table);
  ctx.run_random(rep, "bsd_monotone", strat_mono, ctx.tier.pick(200_000, 5_000_000), check_mono);
  ctx.run_random(rep, "bsd_claim", strat_bsd, ctx.tier.pick(200_000, 10_000_000), check_bsd);
}

pub fn replay(ctx: &Ctx, rep: &mut Report, section: &str, case: &Value) -> Result<(), String> {
  match section {
    "positions" => ctx.run_one(rep, section, &super::de::<PosCase>(case)?, check_pos),
    "deep_cell_centres" => ctx.run_one(rep, section, &super::de::<CellCase>(case)?, check_cell),
    "with_radius" => ctx.run_one(rep, section, &super::de::<RadCase>(case)?, check_radius),
    "bsd_table" => ctx.run_one(rep, section, &0u8, check_table),
    "bsd_monotone" => ctx.run_one(rep, section, &super::de::<(f64, f64)>(case)?, check_mono),
    "bsd_claim" => ctx.run_one(rep, section, &super::de::<BsdCase>(case)?, check_bsd),
    _ => ctx.run_one(rep, section, &super::de::<CellCase>(case)?, check_cell),
  }
  Ok(())
}
