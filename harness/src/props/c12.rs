//! C12 -- Polygon coverage keeps the vertex cells, is tight, and flags honestly; `contains` exact.

use super::bmoc_common as bc;
use super::cone_common::Coverage;
use crate::engine::*;
use crate::gens;
use crate::model::geom::{self, V3};
use crate::model::lattice::Cell;
use cdshealpix::nested;
use cdshealpix::sph_geom::coo3d::{Coo3D, LonLat};
use cdshealpix::sph_geom::Polygon;
use proptest::prelude::*;
use serde::{Deserialize, Serialize};
use serde_json::{json, Value};
use std::f64::consts::PI;

#[derive(Clone, Debug, Serialize, Deserialize)]
pub struct Poly {
  pub depth: u8,
  pub exact: bool,
  pub lon_c: f64,
  pub lat_c: f64,
  pub r: f64,
  pub convex: bool,
  pub verts: Vec<(f64, f64)>,
  /// probe points near the polygon: (fraction of 2R, azimuth)
  pub probes: Vec<(f64, f64)>,
  /// probe points anywhere: (lon, lat)
  pub far: Vec<(f64, f64)>,
  /// probe points on the meridian of a vertex: (vertex index, latitude offset in units of R)
  #[serde(default)]
  pub meridian: Vec<(usize, f64)>,
  /// generator class ("" = generic, "near_limit_corner")
  #[serde(default)]
  pub kind: String,
}

pub fn meta() -> PropMeta {
  PropMeta {
    id: "C12",
    rule: "cases = polygons built around a centre c (5-class generator, |lat_c| + R + 0.02 < pi/2), R log-uniform in [1e-4, 0.8) (3/4) or [1e-9, 1e-4) (1/4): convex = 3..=12 vertices on a small circle of radius in [0.3R, R] at jittered azimuths (gaps in (0.05, 0.95*pi)), star-shaped = same azimuths with radii in [0.2R, R]; both winding orders and any starting vertex; depth <= 29 with R*nside <= 128 (one case in 14000: R*nside ~ 1e5, a polygon 17 levels above the requested depth); both modes (approximate / exact); 12..24 probe points within 2R, 4..8 anywhere and 4..10 on the exact meridian of a vertex for the point-in-polygon predicate; in one case out of three the vertex longitudes are snapped onto the columns of cell corners of the requested depth; non-trivial = polygon overlapping >= 4 cells of the requested depth; distinct by (depth, mode, vertices)",
    assumptions: vec![
      "inside/outside reference: star-shaped rule around c (in the azimuth wedge of an edge, same side of the edge's great circle as c), identical to the half-space definition for convex polygons; points within min(1e-9, max(1e-13, 1e-4 R)) rad of an edge plane or of a wedge boundary are not judged".into(),
      "general no-miss soundness of polygon coverage is not claimed by the property and not checked".into(),
    ],
  }
}

struct Model {
  /// no-judgement band around an edge plane / wedge boundary: 1e-4 R, between 1e-13 and 1e-9 rad
  band: f64,
  c: V3,
  v: Vec<V3>,
  /// +1 / -1 per edge so that c is on the positive side of the edge's great circle
  sign: Vec<f64>,
}

impl Model {
  fn new(p: &Poly) -> Model {
    let c = V3::from_lonlat(p.lon_c, p.lat_c);
    let v: Vec<V3> = p.verts.iter().map(|&(l, b)| V3::from_lonlat(l, b)).collect();
    let k = v.len();
    let sign = (0..k).map(|i| if geom::plane_side(&v[i], &v[(i + 1) % k], &c) < 0.0 { -1.0 } else { 1.0 }).collect();
    Model { band: (1e-4 * p.r).max(1e-13).min(1e-9), c, v, sign }
  }
  /// signed distance to the great circle of edge i (positive on the side of c)
  fn side(&self, i: usize, p: &V3) -> f64 {
    self.sign[i] * geom::plane_side(&self.v[i], &self.v[(i + 1) % self.v.len()], p)
  }
  /// Distance of the point to the nearest edge plane divided by 1e-16 / (shortest edge): the side
  /// test of the crate (sign of p . (v_i x v_{i+1})) has an absolute error of about 1e-16, i.e.
  /// 1e-16 / |edge| on the distance to the edge; a point closer than a few times that to an edge
  /// plane is within the rounding distance of the crate's arithmetic (known finding D25).
  fn clearance_over_edge_rounding(&self, p: &V3) -> f64 {
    let k = self.v.len();
    let mut lmin = f64::INFINITY;
    let mut clear = f64::INFINITY;
    for i in 0..k {
      let (a, b) = (&self.v[i], &self.v[(i + 1) % k]);
      let l = V3 { x: b.x - a.x, y: b.y - a.y, z: b.z - a.z }.norm();
      lmin = lmin.min(l);
      clear = clear.min(self.side(i, p).abs());
    }
    clear / (1e-16 / lmin)
  }
  /// 1e-16 / (shortest edge): the absolute error of the crate's distance-to-edge (see above)
  fn edge_rounding(&self) -> f64 {
    let k = self.v.len();
    let lmin = (0..k).map(|i| { let (a, b) = (&self.v[i], &self.v[(i + 1) % k]); V3 { x: b.x - a.x, y: b.y - a.y, z: b.z - a.z }.norm() }).fold(f64::INFINITY, f64::min);
    1e-16 / lmin
  }
  /// Some(inside) or None if the point is too close to an edge plane / wedge boundary to be judged
  fn inside(&self, p: &V3, convex: bool) -> Option<bool> {
    let k = self.v.len();
    if convex {
      let mut inside = true;
      for i in 0..k {
        let s = self.side(i, p);
        if s.abs() < self.band {
          return None;
        }
        if s < 0.0 {
          inside = false;
        }
      }
      // a point of the opposite hemisphere can be on the positive side of every plane only for huge polygons (not generated)
      return Some(inside && p.dot(&self.c) > 0.0);
    }
    // star-shaped around c: find the wedge
    if p.dot(&self.c) <= 0.0 {
      return Some(false);
    }
    for i in 0..k {
      let (a, b) = (&self.v[i], &self.v[(i + 1) % k]);
      // wedge planes through c and a, c and b
      let (sa, sb) = (geom::plane_side(&self.c, a, p), geom::plane_side(&self.c, b, p));
      // orientation of the wedge: b is on one side of plane (c,a)
      let ob = geom::plane_side(&self.c, a, b);
      let oa = geom::plane_side(&self.c, b, a);
      if sa.abs() < self.band || sb.abs() < self.band {
        // near a wedge boundary: judged only if both adjacent edges agree; skip
        return None;
      }
      if (sa > 0.0) == (ob > 0.0) && (sb > 0.0) == (oa > 0.0) {
        let s = self.side(i, p);
        if s.abs() < self.band {
          return None;
        }
        return Some(s > 0.0);
      }
    }
    None
  }
}

pub fn check(c: &Poly, rec: &mut Rec) -> Result<(), Violation> {
  rec.eval();
  let d = c.depth;
  rec.class(if c.convex { "convex" } else { "star" });
  rec.class(if c.exact { "exact" } else { "approx" });
  if !c.kind.is_empty() {
    rec.class(&c.kind);
  }
  let crosses_lon0 = c.verts.iter().any(|v| v.0 < 1.0) && c.verts.iter().any(|v| v.0 > 5.0);
  if crosses_lon0 {
    rec.class("crosses_lon_0");
  }
  let bases: std::collections::BTreeSet<u64> = c.verts.iter().map(|v| nested::hash(0, v.0, v.1)).collect();
  if bases.len() > 1 {
    rec.class("crosses_base_cell_seam");
  }
  rec.sample(|| json!({"depth": d, "exact": c.exact, "centre": (c.lon_c, c.lat_c), "R": c.r, "convex": c.convex, "verts": c.verts}));
  // bounding cone as the crate computes it (normalised mean of the vertices, largest distance):
  // only used as facts of a violation, to key known finding D17-C12 on "radius of the bounding cone
  // within 4% below a starting-depth limit, centre in a polar cap"
  let (bc_lat, bc_r) = {
    let mut m = V3 { x: 0.0, y: 0.0, z: 0.0 };
    for &(l, b) in &c.verts {
      m = m.add(&V3::from_lonlat(l, b));
    }
    let m = m.normalized();
    let r = c.verts.iter().map(|&(l, b)| geom::ang_dist_v(&m, &V3::from_lonlat(l, b))).fold(0.0, f64::max);
    (m.lonlat().1, r)
  };
  let f = |v: Violation| {
    v.fact("depth", d as f64)
      .fact("exact", c.exact as u8 as f64)
      .fact("R", c.r)
      .fact("convex", c.convex as u8 as f64)
      .fact("n_vertices", c.verts.len() as f64)
      .fact("abs_lat", c.lat_c.abs())
      .fact("crosses_lon0", crosses_lon0 as u8 as f64)
      .fact("bounding_cone_abs_lat", bc_lat.abs())
      .fact("bounding_cone_rel_to_limit", super::cone_common::rel_to_model_limit(bc_r))
  };
  let b = match catch(|| nested::polygon_coverage(d, &c.verts, c.exact)) {
    Ok(b) => b,
    Err(p) => {
      let spf = p.contains("special_points_finder.rs") && p.contains("assertion failed");
      return Err(f(Violation::new("polygon_total", "panic", format!("polygon_coverage(depth {}, {:?}, exact={}) panicked: {}", d, c.verts, c.exact, p)).fact("chk", chk_fact()).fact("debug_assert_in_special_points_finder", spf as u8 as f64)));
    }
  };
  let cells = bc::model_cells("polygon_wf", "polygon coverage", &b).map_err(|v| f(v))?;
  if b.get_depth_max() != d {
    return Err(f(Violation::new("polygon_wf", "wrong_depth_max", format!("depth_max {} instead of {}", b.get_depth_max(), d))));
  }
  let cov = Coverage::new(d, &cells);
  let total: u64 = cov.ranges.iter().map(|r| r.1 - r.0).sum();
  if total >= 4 {
    rec.nontrivial(fp_of(&(d, c.exact, c.verts.iter().map(|v| (v.0.to_bits(), v.1.to_bits())).collect::<Vec<_>>())));
    rec.class("at_least_4_cells");
  }
  // vertex cells
  for &(vl, vb) in &c.verts {
    let h = nested::hash(d, vl, vb);
    if cov.get(h).is_none() {
      return Err(f(Violation::new("vertex_cells", "vertex_cell_missing", format!("polygon_coverage(depth {}, {:?}, exact={}): cell {} of vertex ({:e}, {:e}) is not covered ({} cells returned)", d, c.verts, c.exact, h, vl, vb, cells.len()))));
    }
  }
  let m = Model::new(c);
  // honest flags (convex polygons)
  if c.convex {
    for x in cells.iter().filter(|x| x.full) {
      let n = 1i64 << x.depth;
      let (i, j) = crate::model::lattice::deinterleave(if x.depth == 0 { 0 } else { x.hash & ((1u64 << (2 * x.depth as u32)) - 1) });
      let cell = Cell { b: (x.hash >> (2 * x.depth as u32)) as u8, i, j };
      let mut pts = geom::cell_vertices_sphere(n, cell).to_vec();
      pts.push(geom::cell_center_sphere(n, cell));
      for (l, bb) in pts {
        let pv = V3::from_lonlat(l, bb);
        if m.inside(&pv, true) == Some(false) {
          return Err(f(Violation::new(
            "full_flag",
            "not_inside",
            format!("polygon_coverage(depth {}, {:?}, exact={}): cell {}/{} is flagged fully covered but its vertex/centre ({:e}, {:e}) is outside the (convex) polygon", d, c.verts, c.exact, x.depth, x.hash, l, bb),
          )
          .fact("clearance_over_edge_rounding", m.clearance_over_edge_rounding(&pv))));
        }
      }
    }
  }
  // tightness (the cone is (c, R) enlarged, if needed, to contain the vertices moved by the snapping)
  let r_fit = c.verts.iter().map(|&(l, b)| geom::ang_dist(c.lon_c, c.lat_c, l, b)).fold(c.r, f64::max);
  if r_fit < 0.3 {
    for x in &cells {
      let n = 1i64 << x.depth;
      let (i, j) = crate::model::lattice::deinterleave(if x.depth == 0 { 0 } else { x.hash & ((1u64 << (2 * x.depth as u32)) - 1) });
      let cell = Cell { b: (x.hash >> (2 * x.depth as u32)) as u8, i, j };
      let (cl, cb) = geom::cell_center_sphere(n, cell);
      let dist = geom::ang_dist(c.lon_c, c.lat_c, cl, cb);
      let lim = r_fit + 2.0 * geom::dmax(x.depth) + 1e-12;
      rec.metric_max("centre_dist_over_limit", dist / lim);
      if !(dist <= lim) {
        return Err(f(Violation::new("tight", "cell_too_far", format!("polygon_coverage(depth {}, {:?}, exact={}): cell {}/{} has its centre {:e} rad from the centre of the bounding cone (R = {:e}), more than R + 2*Dmax = {:e}", d, c.verts, c.exact, x.depth, x.hash, dist, r_fit, lim)).fact("excess_in_dmax", (dist - lim) / geom::dmax(x.depth)).fact("edge_rounding_over_dmax", m.edge_rounding() / geom::dmax(x.depth))));
      }
    }
  }
  // point in polygon
  if c.convex && r_fit < 0.3 {
    let poly = match catch(|| Polygon::new(c.verts.iter().map(|&(lon, lat)| LonLat { lon, lat }).collect::<Vec<_>>().into_boxed_slice())) {
      Ok(p) => p,
      Err(p) => return Err(f(Violation::new("contains", "panic", format!("Polygon::new({:?}) panicked: {}", c.verts, p)))),
    };
    let mut pts: Vec<(f64, f64)> = c.probes.iter().map(|&(fr, az)| geom::point_at(c.lon_c, c.lat_c, 2.0 * c.r * fr, az)).collect();
    pts.extend(c.far.iter().copied());
    pts.push((c.lon_c, c.lat_c));
    // points having bit for bit the longitude of a vertex (ties in the longitude tests of the crate)
    for &(k, off) in &c.meridian {
      let (vl, vb) = c.verts[k % c.verts.len()];
      pts.push((vl, (vb + off * c.r).max(-geom::HALF_PI).min(geom::HALF_PI)));
    }
    for (l, bb) in pts {
      let want = match m.inside(&V3::from_lonlat(l, bb), true) {
        Some(w) => w,
        None => continue,
      };
      rec.class(if want { "probe_inside" } else { "probe_outside" });
      let got = match catch(|| poly.contains(&Coo3D::from_sph_coo(l, bb))) {
        Ok(g) => g,
        Err(p) => return Err(f(Violation::new("contains", "panic", format!("Polygon::contains panicked: {}", p)))),
      };
      if got != want {
        return Err(f(Violation::new(
          "contains",
          "wrong_answer",
          format!("Polygon({:?}).contains(({:e}, {:e})) = {} but the point is {} the convex polygon (half-space definition)", c.verts, l, bb, got, if want { "inside" } else { "outside" }),
        )
        .fact("probe_lon", l)
        .fact("probe_lat", bb)
        .fact("clearance_over_edge_rounding", m.clearance_over_edge_rounding(&V3::from_lonlat(l, bb)))));
      }
    }
  }
  Ok(())
}

/// Directed class: a thin triangle whose bounding cone, *as the crate computes it* (normalised mean
/// of the vertices, largest distance to a vertex), has a radius within a few 1e-5 .. 2e-2 (relative)
/// of a starting-depth limit `T_k`, on either side of it, and a centre next to one of the 8 points
/// where three base cells meet (where the cells of depth k are the narrowest outside the caps'
/// seams): the recursion of `polygon_coverage` starts from the cell of that centre and its
/// neighbours, so the vertex cells are at risk exactly there.
fn strat_near_limit() -> BoxedStrategy<Poly> {
  (
    (1usize..=8, -5.0f64..-1.7, any::<bool>(), 0u8..8, -8.0f64..-2.0, 0.0f64..(2.0 * PI), 0.0f64..(2.0 * PI), 0.2f64..0.6),
    (0u8..=4, any::<bool>(), any::<bool>(), 0usize..3),
    prop::collection::vec((0.0f64..1.0, 0.0f64..(2.0 * PI)), 12..24),
    prop::collection::vec((0.0f64..(2.0 * PI), -1.0f64..=1.0), 4..8),
    prop::collection::vec((0usize..3, -2.5f64..2.5), 4..10),
  )
    .prop_map(|((k, eps_log, above, corner, delta_log, delta_az, beta, gamma), (dd, exact, reverse, rot), probes, far, meridian)| {
      let t = super::cone_common::model_thresholds()[k];
      let eps = (10.0f64).powf(eps_log);
      let r_target = t * if above { 1.0 + eps } else { 1.0 - eps };
      let tl = geom::transition_latitude();
      let (clon, clat) = ((corner & 3) as f64 * geom::HALF_PI, if corner < 4 { tl } else { -tl });
      let (mut mlon, mut mlat) = geom::point_at(clon, clat, (10.0f64).powf(delta_log) * r_target, delta_az);
      let (want_lon, want_lat) = (mlon, mlat);
      let mut rr = r_target;
      let mut verts: Vec<(f64, f64)> = vec![];
      let mut got = (mlon, mlat, rr);
      for _ in 0..4 {
        let s = rr / (2.0 * gamma.cos());
        verts = vec![geom::point_at(mlon, mlat, rr, beta), geom::point_at(mlon, mlat, s, beta + PI - gamma), geom::point_at(mlon, mlat, s, beta + PI + gamma)];
        // the crate's bounding cone of these vertices
        let mut m = V3 { x: 0.0, y: 0.0, z: 0.0 };
        for &(l, b) in &verts {
          m = m.add(&V3::from_lonlat(l, b));
        }
        let m = m.normalized();
        let r_now = verts.iter().map(|&(l, b)| geom::ang_dist_v(&m, &V3::from_lonlat(l, b))).fold(0.0, f64::max);
        let (gl, gb) = m.lonlat();
        got = (gl, gb, r_now);
        // correct the construction centre and radius towards the targets
        let mut dl = want_lon - gl;
        if dl > PI {
          dl -= 2.0 * PI;
        } else if dl < -PI {
          dl += 2.0 * PI;
        }
        mlon += dl;
        mlat += want_lat - gb;
        rr *= r_target / r_now;
      }
      for v in verts.iter_mut() {
        v.0 = v.0.rem_euclid(2.0 * PI);
      }
      let (lon_c, lat_c) = (got.0.rem_euclid(2.0 * PI), got.1);
      let depth = ((k as u8 + dd).saturating_sub(1)).min(12);
      if reverse {
        verts.reverse();
      }
      verts.rotate_left(rot % 3);
      Poly { depth, exact, lon_c, lat_c, r: got.2, convex: true, verts, probes, far: far.into_iter().map(|(l, z)| (l, z.asin())).collect(), meridian, kind: "near_limit_corner".into() }
    })
    .boxed()
}

fn strat() -> BoxedStrategy<Poly> {
  prop_oneof![7 => strat_generic(), 1 => strat_near_limit()].boxed()
}

/// every vertex is strictly on the inner side of every edge it does not belong to (margin 1e-7 R)
fn is_convex_around(verts: &[(f64, f64)], lon_c: f64, lat_c: f64, r: f64) -> bool {
  let k = verts.len();
  let cc = V3::from_lonlat(lon_c, lat_c);
  let vv: Vec<V3> = verts.iter().map(|&(l, b)| V3::from_lonlat(l, b)).collect();
  for i in 0..k {
    let sg = if geom::plane_side(&vv[i], &vv[(i + 1) % k], &cc) < 0.0 { -1.0 } else { 1.0 };
    for (j, w) in vv.iter().enumerate() {
      if j != i && j != (i + 1) % k && sg * geom::plane_side(&vv[i], &vv[(i + 1) % k], w) < 1e-7 * r {
        return false;
      }
    }
  }
  true
}

/// consecutive vertices keep turning the same way around c
fn is_star_around(verts: &[(f64, f64)], lon_c: f64, lat_c: f64) -> bool {
  let k = verts.len();
  let cc = V3::from_lonlat(lon_c, lat_c);
  let vv: Vec<V3> = verts.iter().map(|&(l, b)| V3::from_lonlat(l, b)).collect();
  let s0 = geom::plane_side(&cc, &vv[0], &vv[1 % k]);
  (0..k).all(|i| {
    let s = geom::plane_side(&cc, &vv[i], &vv[(i + 1) % k]);
    s != 0.0 && (s > 0.0) == (s0 > 0.0)
  })
}

fn strat_generic() -> BoxedStrategy<Poly> {
  let r = prop_oneof![3 => (-4.0f64..-0.0969), 1 => (-9.0f64..-4.0)].prop_map(|u| (10.0f64).powf(u));
  (r, gens::position_principal(), 3usize..=12, any::<bool>(), any::<bool>(), any::<bool>(), 0usize..12)
    .prop_flat_map(|(r, pos, k, convex, exact, reverse, rot)| {
      let lat_max = geom::HALF_PI - r - 0.0201;
      let lat_c = pos.lat.max(-lat_max).min(lat_max);
      let lon_c = pos.lon;
      let amp = if k == 3 { 0.4 } else if k == 4 { 0.8 } else { 0.9 };
      let maxd = ((128.0 / r).log2().floor() as i32).max(0).min(29) as u8;
      (
        prop::collection::vec(0.0f64..1.0, k),
        prop::collection::vec(0.0f64..1.0, k),
        0.3f64..=1.0,
        0.0f64..(2.0 * PI),
        // (rarely: a depth 17 levels or more below the starting depth of the polygon, i.e. a polygon
        // 2^16 cells across: 1e5 .. 1e6 returned cells, the shifts / products by 4^delta of the recursion)
        prop_oneof![6000 => Just(maxd), 4000 => Just(maxd.saturating_sub(2)), 4000 => 0u8..=maxd, 1 => Just(((0.9 / r).log2().ceil().max(0.0) as u8 + 17).min(29))],
        prop::collection::vec((0.0f64..1.0, 0.0f64..(2.0 * PI)), 12..24),
        prop::collection::vec((0.0f64..(2.0 * PI), -1.0f64..=1.0), 4..8),
        prop::collection::vec((0usize..12, prop_oneof![3 => -2.5f64..2.5, 1 => -40.0f64..40.0]), 4..10),
        (prop_oneof![2 => Just(0u8), 1 => 1u8..=4], prop_oneof![3 => Just(0u8), 1 => 1u8..=4]),
      )
        .prop_map(move |(jit, rad, rho, az0, depth, probes, far, meridian, (snap, eqlat))| {
          let mut verts: Vec<(f64, f64)> = (0..k)
            .map(|i| {
              let az = az0 + (i as f64 + amp * jit[i]) * 2.0 * PI / k as f64;
              let rr = if convex { r * rho } else { r * (0.2 + 0.8 * rad[i]) };
              geom::point_at(lon_c, lat_c, rr, az)
            })
            .collect();
          // optionally snap the vertex longitudes onto the columns of cell corners of the requested depth
          // (multiples of pi / 2^(depth+2), or 2..8 times coarser): ties between a vertex and a cell vertex
          let mut convex = convex;
          if snap > 0 {
            let step = PI / (1u64 << (depth as u32 + 2)) as f64 * (1u64 << (snap - 1)) as f64;
            if step < r / 20.0 {
              let backup = verts.clone();
              for v in verts.iter_mut() {
                v.0 = ((v.0 / step).round() * step).rem_euclid(2.0 * PI);
              }
              // the vertices must still turn around c in the same order (else the polygon may
              // intersect itself: outside the domain, and the star-shaped reference would be wrong)
              if !is_star_around(&verts, lon_c, lat_c) {
                verts = backup;
              }
              // snapping may break convexity when two vertices are very close: then only the
              // claims made for every polygon are checked
              if convex {
                convex = is_convex_around(&verts, lon_c, lat_c, r);
              }
            }
          }
          // optionally give two or three consecutive vertices bit-equal latitudes (what a lon/lat box or a
          // hand-typed trapezoid has): the great-circle edge between them is not the parallel
          let mut kind = String::new();
          if eqlat == 4 && convex {
            // instead: vertex latitudes snapped onto the rings of cell corners of the requested depth or
            // of a shallower one (y = k / nside in the projection plane: the equator, the transition
            // latitude with sin(lat) = 2/3 exactly, every ring of cell vertices)
            let backup = verts.clone();
            let nn = (1u64 << depth.saturating_sub((rot % 3) as u8)) as f64;
            let mut moved = false;
            for v in verts.iter_mut() {
              let (x, y) = geom::proj_ref(v.0, v.1);
              let ys = (y * nn).round() / nn;
              let (_, la) = geom::unproj_ref(x, ys.max(-2.0).min(2.0));
              if (la - v.1).abs() < r / 8.0 && la.abs() < geom::HALF_PI - 0.02 {
                v.1 = la;
                moved = true;
              }
            }
            if moved && is_convex_around(&verts, lon_c, lat_c, r) {
              kind = "ring_latitudes".into();
            } else {
              verts = backup;
            }
          } else if eqlat > 0 && convex {
            let backup = verts.clone();
            let i0 = (eqlat as usize * 7 + rot) % k;
            let n_eq = if eqlat >= 3 { 2 } else { 1 };
            for t in 1..=n_eq {
              let lat0 = verts[i0].1;
              verts[(i0 + t) % k].1 = lat0;
            }
            // kept only if the polygon is still convex around c (the reference needs it)
            if is_convex_around(&verts, lon_c, lat_c, r) {
              kind = "equal_latitudes".into();
            } else {
              verts = backup;
            }
          }
          if reverse {
            verts.reverse();
          }
          verts.rotate_left(rot % k);
          Poly { depth, exact, lon_c, lat_c, r, convex, verts, probes, far: far.into_iter().map(|(l, z)| (l, z.asin())).collect(), meridian, kind }
        })
    })
    .boxed()
}

pub fn run(ctx: &Ctx, rep: &mut Report) {
  let f = if ctx.profile == "release" { 1 } else { 4 };
  ctx.run_random(rep, "polygons", strat, ctx.tier.pick(400_000, 20_000_000) / f, check);
}

pub fn replay(ctx: &Ctx, rep: &mut Report, section: &str, case: &Value) -> Result<(), String> {
  ctx.run_one(rep, section, &super::de::<Poly>(case)?, check);
  Ok(())
}
