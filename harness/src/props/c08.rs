//! C08 -- BMOC operators follow the documented three-valued semantics with partial flags.

use super::bmoc_common::{self as bc, Spec};
use crate::engine::*;
use crate::model::bmoc::{self as mb, Iv, MCell};
use cdshealpix::nested::bmoc::BMOC;
use proptest::prelude::*;
use serde::{Deserialize, Serialize};
use serde_json::{json, Value};

#[derive(Clone, Debug, Serialize, Deserialize)]
pub struct Pair {
  pub a: Spec,
  pub b: Spec,
}

pub fn meta() -> PropMeta {
  PropMeta {
    id: "C08",
    rule: "exhaustive: depth_max 1, one base cell: the 83 BMOCs (the base cell absent / partial / full, or split in 4 children each absent / partial / full), all 6 889 ordered pairs (quick); two base cells: 6 889 BMOCs, all 47 458 321 ordered pairs (thorough); random: pairs of mixed-flag BMOCs, depth_max 0..=29 equal or different, cells clustered around shared anchors, unpacked shapes included; non-trivial = a partial cell of one operand strictly contains or is strictly contained in a cell of the other; distinct by the two cell lists",
    assumptions: vec!["reference = pointwise three-valued operators on the leaf-interval model: not: 0<->2, 1->1; and = min; or = max; xor: (0,x)->x, (x,0)->x, (2,2)->0, else 1".into()],
  }
}

pub fn check_pair(c: &Pair, rec: &mut Rec) -> Result<(), Violation> {
  rec.eval();
  let (sa, sb) = (&c.a, &c.b);
  rec.class(if sa.depth_max == sb.depth_max { "same_depth_max" } else { "different_depth_max" });
  let nt = sa.nests_with(sb, true);
  if nt {
    rec.nontrivial(fp_of(&(sa.depth_max, &sa.cells, sb.depth_max, &sb.cells)));
    rec.class("partial_nested");
  }
  rec.sample(|| json!(c));
  let dm = sa.depth_max.max(sb.depth_max);
  let nl = mb::n_leaves(dm);
  let (ia, ib) = (sa.intervals(dm), sb.intervals(dm));
  let (a, b) = (bc::build(sa), bc::build(sb));
  // coarse partial cell of one operand overlapping finer cells of the other (the shape of known finding D10)
  let coarse_partial = |x: &Spec, y: &Spec| -> bool {
    x.mcells().iter().any(|cx| {
      !cx.full && {
        let (s, e) = mb::leaf_range(x.depth_max, cx);
        let up = 2 * (dm - x.depth_max) as u32;
        let (s, e) = (s << up, e << up);
        y.mcells().iter().any(|cy| {
          let (s2, e2) = mb::leaf_range(y.depth_max, cy);
          let up2 = 2 * (dm - y.depth_max) as u32;
          let (s2, e2) = (s2 << up2, e2 << up2);
          s2 >= s && e2 <= e && (e2 - s2) < (e - s)
        })
      }
    })
  };
  let cp = coarse_partial(sa, sb) || coarse_partial(sb, sa);
  let f = |v: Violation| v.fact("dm_a", sa.depth_max as f64).fact("dm_b", sb.depth_max as f64).fact("coarse_partial_over_finer", cp as u8 as f64);
  for (name, s, x) in [("a", sa, &a), ("b", sb, &b)] {
    let r = match catch(|| x.not()) {
      Ok(r) => r,
      Err(p) => return Err(f(Violation::new("not", "panic", format!("not({}) panicked: {}; {} = {:?}", name, p, name, s)))),
    };
    let cells = bc::model_cells("not", "not(x)", &r).map_err(|v| f(v))?;
    if r.get_depth_max() != s.depth_max {
      return Err(f(Violation::new("not", "wrong_depth_max", format!("not({:?}) has depth_max {} instead of {}", s, r.get_depth_max(), s.depth_max))));
    }
    let got = mb::to_intervals(r.get_depth_max(), s.depth_max, &cells);
    let want = mb::op_not(&s.intervals(s.depth_max), mb::n_leaves(s.depth_max));
    if r.get_depth_max() != s.depth_max || got != want {
      return Err(f(Violation::new("not", "wrong_map", format!("not({:?}) = {:?}: not the pointwise complement (absent<->full, partial kept)", s, cells))));
    }
  }
  type Op = fn(&BMOC, &BMOC) -> BMOC;
  let ops: [(&str, Op, fn(&[Iv], &[Iv], u64) -> Vec<Iv>); 3] = [("and", |x, y| x.and(y), mb::op_and), ("or", |x, y| x.or(y), mb::op_or), ("xor", |x, y| x.xor(y), mb::op_xor)];
  for (name, op, mop) in ops.iter() {
    for swap in [false, true] {
      let (x, y, sx, sy) = if swap { (&b, &a, sb, sa) } else { (&a, &b, sa, sb) };
      let r = match catch(|| op(x, y)) {
        Ok(r) => r,
        Err(p) => return Err(f(Violation::new(name, "panic", format!("x.{}(y) panicked: {}; x = {:?}, y = {:?}", name, p, sx, sy)))),
      };
      let cells: Vec<MCell> = bc::model_cells(name, &format!("x.{}(y) with x = {:?}, y = {:?}", name, sx, sy), &r).map_err(|v| f(v))?;
      if r.get_depth_max() != dm {
        return Err(f(Violation::new(name, "wrong_depth_max", format!("x.{}(y) has depth_max {} instead of {}", name, r.get_depth_max(), dm))));
      }
      let got = mb::to_intervals(dm, dm, &cells);
      let want = if swap { mop(&ib, &ia, nl) } else { mop(&ia, &ib, nl) };
      if got != want {
        // first differing leaf
        let mut leaf = 0u64;
        let mut cuts: Vec<u64> = got.iter().chain(want.iter()).flat_map(|i| [i.start, i.end]).collect();
        cuts.sort_unstable();
        for w in cuts {
          if mb::state_at(&got, w) != mb::state_at(&want, w) {
            leaf = w;
            break;
          }
        }
        return Err(f(Violation::new(
          name,
          "wrong_map",
          format!("x.{}(y) = {:?}: at leaf {} (depth {}) the state is {} but the documented rule gives {} (0 absent, 1 partial, 2 full); x = {:?}, y = {:?}", name, cells, leaf, dm, mb::state_at(&got, leaf), mb::state_at(&want, leaf), sx, sy),
        )));
      }
    }
  }
  Ok(())
}

/// the 83 BMOCs of one base cell at depth_max 1
fn one_base_cell(b: u64, k: u64) -> Vec<MCell> {
  match k {
    81 => vec![MCell { depth: 0, hash: b, full: false }],
    82 => vec![MCell { depth: 0, hash: b, full: true }],
    _ => {
      let mut v = vec![];
      let mut k = k;
      for c in 0..4u64 {
        match k % 3 {
          1 => v.push(MCell { depth: 1, hash: 4 * b + c, full: false }),
          2 => v.push(MCell { depth: 1, hash: 4 * b + c, full: true }),
          _ => {}
        }
        k /= 3;
      }
      v
    }
  }
}

fn spec83(k: u64) -> Spec {
  Spec::from_mcells(1, &one_base_cell(3, k), "exhaustive")
}

fn spec6889(k: u64) -> Spec {
  let mut v = one_base_cell(3, k % 83);
  v.extend(one_base_cell(4, k / 83));
  Spec::from_mcells(1, &v, "exhaustive")
}

fn strat() -> BoxedStrategy<Pair> {
  bc::spec_pair(true).prop_map(|(a, b)| Pair { a, b }).boxed()
}

pub fn run(ctx: &Ctx, rep: &mut Report) {
  ctx.run_enum(rep, "one_base_cell_all_pairs", 83 * 83, |k| Pair { a: spec83(k % 83), b: spec83(k / 83) }, check_pair);
  if ctx.tier == Tier::Thorough {
    // unordered pairs are enough: the check evaluates both orders
    ctx.run_enum(rep, "two_base_cells_all_pairs", 6889 * 6889, |k| Pair { a: spec6889(k % 6889), b: spec6889(k / 6889) }, check_pair);
  } else {
    ctx.run_random(rep, "two_base_cells_pairs", || (0u64..6889, 0u64..6889).prop_map(|(x, y)| Pair { a: spec6889(x), b: spec6889(y) }).boxed(), 300_000, check_pair);
  }
  ctx.run_random(rep, "random_mixed", strat, ctx.tier.pick(400_000, 20_000_000), check_pair);
}

pub fn replay(ctx: &Ctx, rep: &mut Report, section: &str, case: &Value) -> Result<(), String> {
  ctx.run_one(rep, section, &super::de::<Pair>(case)?, check_pair);
  Ok(())
}
