//! C20 -- Lazy per-depth layers initialise once and safely under concurrent first use.
//!
//! Generated thread programs are executed by the `hpxv_c20` interpreter in fresh child processes
//! (a depth can be initialised only once per process): natively (parallel vs. sequential run of
//! the same program, hook counters) and under Miri (`cargo +nightly miri run`, seed-driven
//! scheduler + data-race detector).

use crate::engine::*;
use proptest::prelude::*;
use serde::{Deserialize, Serialize};
use serde_json::{json, Value};
use std::collections::BTreeMap;
use std::process::Command;

#[derive(Clone, Debug, Serialize, Deserialize)]
pub struct Prog {
  /// per thread: (spin skew, ops)
  pub threads: Vec<(u64, Vec<String>)>,
  /// Miri scheduler seed (only used by the miri section)
  pub miri_seed: u32,
}

impl Prog {
  pub fn encode(&self) -> String {
    self.threads.iter().map(|(s, ops)| format!("{}:{}", s, ops.join(","))).collect::<Vec<_>>().join("|")
  }
}

pub fn meta() -> PropMeta {
  PropMeta {
    id: "C20",
    rule: "cases = thread programs: 2..=16 threads (2..=4 under Miri), each with a spin skew in {0,0,0,10,100,1000,5000} and 1..=4 first-use requests L<d> (layer: address, hash, centre, neighbours), C<d> (cell-size constants), K<d> (small cone: both tables, several depths), depths drawn mostly from one 'hot' depth per program so that simultaneous first uses of the same table collide; each program runs in a fresh process, in parallel behind a barrier and sequentially; under Miri each (program, seed) is one schedule; non-trivial = at least two threads whose first request is the same (table, depth) with the same skew; distinct by (program, seed)",
    assumptions: vec![
      "native runs sample the interleavings the OS happens to produce; Miri explores one seeded schedule per run and judges data races by the Rust memory model; neither is exhaustive over interleavings".into(),
      "under Miri only integer results (depth, n_hash, hash, neighbours), construction counts and object addresses are compared (Miri perturbs the last bit of libm results on purpose); native runs compare every result bit for bit".into(),
      "construction counts come from the cfg(cdshealpix_verif) hook counters in Layer::new / ConstantsC2V::new".into(),
    ],
  }
}

fn c20_bin() -> String {
  std::env::var("HPXV_C20_BIN").unwrap_or_else(|_| format!("{}/harness/c20/target/release/hpxv_c20", std::env::var("VERIF_ROOT").unwrap_or_else(|_| "/verif".into())))
}

struct RunOut {
  lines: Vec<String>,
  counts: BTreeMap<String, u64>,
}

fn parse(out: &str) -> RunOut {
  let mut lines = vec![];
  let mut counts = BTreeMap::new();
  for l in out.lines() {
    if let Some(rest) = l.strip_prefix("count ") {
      if let Some((k, v)) = rest.split_once('=') {
        counts.insert(k.to_string(), v.parse().unwrap_or(u64::MAX));
      }
    } else if l.starts_with('t') {
      lines.push(l.to_string());
    }
  }
  RunOut { lines, counts }
}

fn strip_addr(l: &str) -> String {
  l.split(' ').filter(|w| !w.starts_with("addr=")).collect::<Vec<_>>().join(" ")
}

fn nontrivial(p: &Prog) -> bool {
  for i in 0..p.threads.len() {
    for j in (i + 1)..p.threads.len() {
      if p.threads[i].0 == p.threads[j].0 && !p.threads[i].1.is_empty() && p.threads[i].1.first() == p.threads[j].1.first() {
        return true;
      }
    }
  }
  false
}

/// keep only the fields that do not depend on floating point results (Miri perturbs the last
/// bit of libm results on purpose, so floats cannot be compared with a native run)
fn integer_fields(l: &str) -> String {
  l.split(' ').filter(|w| !(w.starts_with("addr=") || w.starts_with("centre=") || w.starts_with("c2v=") || w.starts_with("digest=") || w.starts_with("cone_entries=") || w.starts_with("ell_entries="))).collect::<Vec<_>>().join(" ")
}

fn judge(p: &Prog, par: &RunOut, seq: &RunOut, how: &str) -> Result<(), Violation> {
  let f = |v: Violation| v.fact("n_threads", p.threads.len() as f64);
  // every construction count is exactly 1, and the same tables were constructed as in the sequential run
  for (k, v) in &par.counts {
    if *v != 1 {
      return Err(f(Violation::new("constructed_once", "count_not_1", format!("{}: table {} was constructed {} times in program {}", how, k, v, p.encode()))));
    }
  }
  if par.counts.keys().collect::<Vec<_>>() != seq.counts.keys().collect::<Vec<_>>() {
    return Err(f(Violation::new("constructed_once", "different_tables", format!("{}: tables constructed in parallel {:?} vs sequentially {:?} for program {}", how, par.counts.keys().collect::<Vec<_>>(), seq.counts.keys().collect::<Vec<_>>(), p.encode()))));
  }
  for (t, ops) in p.threads.iter().enumerate() {
    for op in &ops.1 {
      let key = format!("{}{}", &op[..1], &op[1..]);
      // (the depth-0 cell-size helper is a constant: no table C0 exists)
      if (op.starts_with('L') || op.starts_with('C')) && key != "C0" && par.counts.get(&key) != Some(&1) {
        return Err(f(Violation::new("constructed_once", "requested_table_not_constructed", format!("{}: thread {} requested {} but its construction count is {:?} in program {}", how, t, op, par.counts.get(&key), p.encode()))));
      }
    }
  }
  // same object for every thread
  let mut addr: BTreeMap<String, String> = BTreeMap::new();
  for l in &par.lines {
    let w: Vec<&str> = l.split(' ').collect();
    if w.len() > 2 && w[1].starts_with('L') {
      if let Some(a) = w.iter().find(|x| x.starts_with("addr=")) {
        if let Some(prev) = addr.insert(w[1].to_string(), a.to_string()) {
          if prev != *a {
            return Err(f(Violation::new("same_object", "different_addresses", format!("{}: two threads obtained different layers for {}: {} vs {} in program {}", how, w[1], prev, a, p.encode()))));
          }
        }
      }
    }
  }
  // results identical to the single-threaded run
  let norm = |l: &String| if how == "miri" { integer_fields(l) } else { strip_addr(l) };
  let a: Vec<String> = par.lines.iter().map(norm).collect();
  let b: Vec<String> = seq.lines.iter().map(norm).collect();
  if a != b {
    let k = a.iter().zip(b.iter()).position(|(x, y)| x != y).unwrap_or(a.len().min(b.len()));
    return Err(f(Violation::new(
      "same_results",
      "differs_from_sequential",
      format!("{}: program {}: result line {} is '{}' in the concurrent run but '{}' sequentially", how, p.encode(), k, a.get(k).cloned().unwrap_or_default(), b.get(k).cloned().unwrap_or_default()),
    )));
  }
  Ok(())
}

fn run_native(mode: &str, prog: &str) -> Result<RunOut, String> {
  let out = Command::new(c20_bin()).arg(mode).arg(prog).output().map_err(|e| format!("cannot run {}: {}", c20_bin(), e))?;
  if !out.status.success() {
    return Err(format!("hpxv_c20 {} {} exited with {:?}: {}", mode, prog, out.status.code(), String::from_utf8_lossy(&out.stderr).lines().last().unwrap_or("")));
  }
  Ok(parse(&String::from_utf8_lossy(&out.stdout)))
}

/// A schedule-dependent failure is real even if the same program passes when run again: failures
/// are remembered per program, so that the shrinker and the final re-run see a consistent verdict
/// for a program that has failed once (other programs are really executed).
fn remembered() -> &'static std::sync::Mutex<BTreeMap<String, Violation>> {
  use std::sync::OnceLock;
  static M: OnceLock<std::sync::Mutex<BTreeMap<String, Violation>>> = OnceLock::new();
  M.get_or_init(|| std::sync::Mutex::new(BTreeMap::new()))
}

pub fn check_native(p: &Prog, rec: &mut Rec) -> Result<(), Violation> {
  let key = format!("native|{}", p.encode());
  if let Some(v) = remembered().lock().unwrap().get(&key) {
    return Err(v.clone());
  }
  let r = check_native_once(p, rec);
  if let Err(v) = &r {
    if v.check != "harness" {
      remembered().lock().unwrap().insert(key, v.clone());
    }
  }
  r
}

fn check_native_once(p: &Prog, rec: &mut Rec) -> Result<(), Violation> {
  rec.eval();
  rec.class(&format!("threads{}", p.threads.len().min(16)));
  if nontrivial(p) {
    rec.nontrivial(fp_of(&p.encode()));
    rec.class("simultaneous_same_first_request");
  }
  rec.sample(|| json!(p.encode()));
  let prog = p.encode();
  let seq = run_native("seq", &prog).map_err(|e| Violation::new("harness", "child_failed", e))?;
  let par = match run_native("par", &prog) {
    Ok(r) => r,
    Err(e) => return Err(Violation::new("concurrent_run", "crashed", format!("the concurrent run of program {} failed: {}", prog, e)).fact("n_threads", p.threads.len() as f64)),
  };
  judge(p, &par, &seq, "native")
}

fn run_miri(mode: &str, prog: &str, seed: u32) -> Result<(i32, String, String), String> {
  let root = std::env::var("VERIF_ROOT").unwrap_or_else(|_| "/verif".into());
  let out = Command::new("cargo")
    .args(["+nightly", "miri", "run", "--offline", "-q", "--manifest-path"])
    .arg(format!("{}/harness/c20/Cargo.toml", root))
    .arg("--")
    .arg(mode)
    .arg(prog)
    .env("CARGO_NET_OFFLINE", "true")
    .env("RUSTFLAGS", "--cfg cdshealpix_verif")
    .env("MIRIFLAGS", format!("-Zmiri-seed={}", seed))
    .output()
    .map_err(|e| format!("cannot run cargo miri: {}", e))?;
  Ok((out.status.code().unwrap_or(-1), String::from_utf8_lossy(&out.stdout).to_string(), String::from_utf8_lossy(&out.stderr).to_string()))
}

pub fn check_miri(p: &Prog, rec: &mut Rec) -> Result<(), Violation> {
  rec.eval();
  rec.class(&format!("threads{}", p.threads.len()));
  if nontrivial(p) {
    rec.nontrivial(fp_of(&(p.encode(), p.miri_seed)));
    rec.class("simultaneous_same_first_request");
  }
  rec.sample(|| json!({"program": p.encode(), "miri_seed": p.miri_seed}));
  let prog = p.encode();
  let (code, out, err) = run_miri("par", &prog, p.miri_seed).map_err(|e| Violation::new("harness", "miri_failed", e))?;
  if err.contains("Undefined Behavior") || err.contains("Data race") {
    let first = err.lines().find(|l| l.starts_with("error")).unwrap_or("").to_string();
    return Err(Violation::new("miri", "undefined_behavior", format!("Miri (seed {}) on program {}: {}", p.miri_seed, prog, first)).fact("n_threads", p.threads.len() as f64).fact("data_race", err.contains("Data race") as u8 as f64));
  }
  if code != 0 {
    return Err(Violation::new("harness", "miri_failed", format!("cargo miri exited with {} on program {}: {}", code, prog, err.lines().rev().take(3).collect::<Vec<_>>().join(" / "))));
  }
  let par = parse(&out);
  let seq = run_native("seq", &prog).map_err(|e| Violation::new("harness", "child_failed", e))?;
  judge(p, &par, &seq, "miri")
}

fn strat(max_threads: usize, max_ops: usize, deep: bool) -> impl Fn() -> BoxedStrategy<Prog> {
  move || {
    let hot_max = if deep { 29u8 } else { 6u8 };
    (0u8..=hot_max, 2usize..=max_threads, any::<u32>())
      .prop_flat_map(move |(hot, nt, seed)| {
        let op = (prop::sample::select(vec!["L", "L", "L", "C", "C", "C", "K", "S", "E"]), prop_oneof![7 => Just(hot), 3 => 0u8..=hot_max]).prop_map(move |(k, d)| {
          // cones only at small depths (cost under Miri, and they touch depths 0..=d); small cones up to depth 25 (+4)
          let d = if k == "K" { d.min(if deep { 8 } else { 3 }) } else if k == "S" { d.min(if deep { 25 } else { 3 }) } else if k == "E" { d.min(if deep { 20 } else { 3 }) } else { d };
          format!("{}{}", k, d)
        });
        let thread = (prop::sample::select(vec![0u64, 0, 0, 10, 100, 1000, 5000]), prop::collection::vec(op, 1..=max_ops));
        prop::collection::vec(thread, nt).prop_map(move |threads| Prog { threads, miri_seed: seed % 100000 })
      })
      .boxed()
  }
}

pub fn run(ctx: &Ctx, rep: &mut Report) {
  if !std::path::Path::new(&c20_bin()).exists() {
    rep.notes.push(format!("{} not built", c20_bin()));
    rep.violations.push(FoundViolation { section: "native".into(), violation: Violation::new("harness", "missing_binary", format!("{} does not exist (run ./setup.sh)", c20_bin())), case: Value::Null, replay_path: String::new() });
    return;
  }
  // one or two processes per case: keep shrinking short
  ctx.shrink_iters.store(48, std::sync::atomic::Ordering::Relaxed);
  ctx.run_random(rep, "native", strat(16, 4, true), ctx.tier.pick(3_000, 200_000), check_native);
  // Miri tier: the schedule is owned by the tool (seed)
  let miri_ok = Command::new("cargo").args(["+nightly", "miri", "--version"]).output().map(|o| o.status.success()).unwrap_or(false);
  if miri_ok {
    ctx.run_random(rep, "miri", strat(4, 2, false), ctx.tier.pick(48, 1_500), check_miri);
  } else {
    rep.notes.push("cargo +nightly miri not available: Miri tier skipped".into());
  }
}

pub fn replay(ctx: &Ctx, rep: &mut Report, section: &str, case: &Value) -> Result<(), String> {
  match section {
    "miri" => ctx.run_one(rep, section, &super::de::<Prog>(case)?, check_miri),
    _ => ctx.run_one(rep, section, &super::de::<Prog>(case)?, check_native),
  }
  Ok(())
}
