//! C02 -- NESTED cell numbers are hierarchical across depths (exact prefix property).

use crate::engine::*;
use crate::gens::{self, Pos};
use crate::model::geom;
use cdshealpix::nested;
use proptest::prelude::*;
use serde::{Deserialize, Serialize};
use serde_json::{json, Value};

#[derive(Clone, Debug, Serialize, Deserialize)]
pub struct Case {
  pub pos: Pos,
}

pub fn meta() -> PropMeta {
  PropMeta {
    id: "C02",
    rule: "cases = positions from the 5-class generator, each hashed at all 30 depths (one evaluation = one position x 30 depths, i.e. all 435 depth pairs through the depth-29 hash); non-trivial = position of a non-uniform class (on/next to a seam, a cell border of some depth, a pole, several turns) or within 2^-40 plane units of a depth-29 border; distinct by (lon bits, lat bits)",
    assumptions: vec!["metamorphic oracle: hash(d,p) == hash(29,p) >> 2(29-d) for every d implies the property for every pair d<d'".into()],
  }
}

pub fn check(c: &Case, rec: &mut Rec) -> Result<(), Violation> {
  let (lon, lat) = (c.pos.lon, c.pos.lat);
  rec.eval();
  rec.class(&c.pos.class);
  let near = geom::dist_to_border(1i64 << 29, lon, lat) < (2.0f64).powi(-40);
  if near {
    rec.class("near_border_d29");
  }
  if c.pos.is_special() || near {
    rec.nontrivial(fp_of(&(lon.to_bits(), lat.to_bits())));
  }
  rec.sample(|| json!(c));
  let mk = |v: Violation, d: u8| super::c01::facts(v, d, lon, lat);
  let h29 = match catch(|| nested::hash(29, lon, lat)) {
    Ok(h) => h,
    Err(p) => return Err(mk(Violation::new("prefix", "panic", format!("nested::hash(29, {:e}, {:e}) panicked: {}", lon, lat, p)), 29)),
  };
  for d in 0..29u8 {
    let h = match catch(|| nested::hash(d, lon, lat)) {
      Ok(h) => h,
      Err(p) => return Err(mk(Violation::new("prefix", "panic", format!("nested::hash({}, {:e}, {:e}) panicked: {}", d, lon, lat, p)), d)),
    };
    let want = h29 >> (2 * (29 - d) as u32);
    if h != want {
      return Err(mk(
        Violation::new("prefix", "not_prefix", format!("hash({}, {:e}, {:e}) = {} but hash(29) >> {} = {} (hash(29) = {})", d, lon, lat, h, 2 * (29 - d), want, h29)),
        d,
      ));
    }
    let hl = match catch(|| nested::get_or_create(d).hash(lon, lat)) {
      Ok(h) => h,
      Err(p) => return Err(mk(Violation::new("prefix", "panic", format!("Layer::hash panicked: {}", p)), d)),
    };
    if hl != h {
      return Err(mk(Violation::new("prefix", "layer_mismatch", format!("Layer::hash({}) = {} vs nested::hash = {}", d, hl, h)), d));
    }
  }
  Ok(())
}

fn strat() -> BoxedStrategy<Case> {
  gens::position().prop_map(|pos| Case { pos }).boxed()
}

pub fn run(ctx: &Ctx, rep: &mut Report) {
  let big = ctx.profile == "release";
  let n = match (ctx.tier, big) {
    (Tier::Quick, true) => 2_000_000,
    (Tier::Quick, false) => 400_000,
    (Tier::Thorough, true) => 60_000_000,
    (Tier::Thorough, false) => 10_000_000,
  };
  ctx.run_random(rep, "prefix", strat, n, check);
}

pub fn replay(ctx: &Ctx, rep: &mut Report, section: &str, case: &Value) -> Result<(), String> {
  match section {
    "prefix" => ctx.run_one(rep, section, &super::de::<Case>(case)?, check),
    _ => return Err(format!("C02: unknown section {}", section)),
  }
  Ok(())
}
