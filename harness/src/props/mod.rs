//! One module per property.  Each exposes `meta()`, `run(ctx, rep)` and `replay(ctx, rep, section, case)`.

use crate::engine::{Ctx, PropMeta, Report};
use serde_json::Value;

pub mod c01;
pub mod c02;
pub mod c03;
pub mod bmoc_common;
pub mod c04;
pub mod c05;
pub mod c06;
pub mod cone_common;
pub mod c07;
pub mod c08;
pub mod c09;
pub mod c10;
pub mod c11;
pub mod c12;
pub mod c13;
pub mod c14;
pub mod c15;
pub mod c16;
pub mod c17;
pub mod c18;
pub mod c19;
pub mod c20;

pub struct PropEntry {
  pub id: &'static str,
  pub meta: fn() -> PropMeta,
  pub run: fn(&Ctx, &mut Report),
  pub replay: fn(&Ctx, &mut Report, &str, &Value) -> Result<(), String>,
  /// build profiles in which the property is exercised
  pub profiles: &'static [&'static str],
}

pub fn registry() -> Vec<PropEntry> {
  vec![
    PropEntry { id: "C01", meta: c01::meta, run: c01::run, replay: c01::replay, profiles: &["release", "chk"] },
    PropEntry { id: "C02", meta: c02::meta, run: c02::run, replay: c02::replay, profiles: &["release", "chk"] },
    PropEntry { id: "C03", meta: c03::meta, run: c03::run, replay: c03::replay, profiles: &["release", "chk"] },
    PropEntry { id: "C04", meta: c04::meta, run: c04::run, replay: c04::replay, profiles: &["release", "chk"] },
    PropEntry { id: "C05", meta: c05::meta, run: c05::run, replay: c05::replay, profiles: &["release", "chk"] },
    PropEntry { id: "C06", meta: c06::meta, run: c06::run, replay: c06::replay, profiles: &["release"] },
    PropEntry { id: "C07", meta: c07::meta, run: c07::run, replay: c07::replay, profiles: &["release", "chk"] },
    PropEntry { id: "C08", meta: c08::meta, run: c08::run, replay: c08::replay, profiles: &["release", "chk"] },
    PropEntry { id: "C09", meta: c09::meta, run: c09::run, replay: c09::replay, profiles: &["release", "chk"] },
    PropEntry { id: "C10", meta: c10::meta, run: c10::run, replay: c10::replay, profiles: &["release", "chk"] },
    PropEntry { id: "C11", meta: c11::meta, run: c11::run, replay: c11::replay, profiles: &["release", "chk"] },
    PropEntry { id: "C12", meta: c12::meta, run: c12::run, replay: c12::replay, profiles: &["release", "chk"] },
    PropEntry { id: "C13", meta: c13::meta, run: c13::run, replay: c13::replay, profiles: &["release", "chk"] },
    PropEntry { id: "C14", meta: c14::meta, run: c14::run, replay: c14::replay, profiles: &["release", "chk"] },
    PropEntry { id: "C15", meta: c15::meta, run: c15::run, replay: c15::replay, profiles: &["release", "chk"] },
    PropEntry { id: "C16", meta: c16::meta, run: c16::run, replay: c16::replay, profiles: &["release"] },
    PropEntry { id: "C17", meta: c17::meta, run: c17::run, replay: c17::replay, profiles: &["release", "chk"] },
    PropEntry { id: "C18", meta: c18::meta, run: c18::run, replay: c18::replay, profiles: &["release", "chk", "bmi2"] },
    PropEntry { id: "C19", meta: c19::meta, run: c19::run, replay: c19::replay, profiles: &["release", "chk"] },
    PropEntry { id: "C20", meta: c20::meta, run: c20::run, replay: c20::replay, profiles: &["release"] },
  ]
}

/// Helper: deserialize a replay case.
pub fn de<T: serde::de::DeserializeOwned>(v: &Value) -> Result<T, String> {
  serde_json::from_value(v.clone()).map_err(|e| format!("cannot decode replay case: {}", e))
}
