//! C01 -- NESTED hash is total, in range, and returns a cell that contains the point.

use crate::engine::*;
use crate::gens::{self, Pos};
use crate::model::{geom, lattice};
use cdshealpix::nested;
use proptest::prelude::*;
use serde::{Deserialize, Serialize};
use serde_json::{json, Value};

#[derive(Clone, Debug, Serialize, Deserialize)]
pub struct Case {
  pub depth: u8,
  pub pos: Pos,
}

#[derive(Clone, Debug, Serialize, Deserialize)]
pub struct BadLat {
  pub depth: u8,
  pub lon: f64,
  pub lat: f64,
}

pub fn meta() -> PropMeta {
  PropMeta {
    id: "C01",
    rule: "cases = (depth 0..=29 weighted to {0,1,2,8,9,16,17,26..29}, position from the 5-class generator: uniform / several turns and negative longitudes / meridians k*pi/4 x special latitudes +-2ulp / lattice points (cell centres and vertices of any depth) +-2ulp / near-pole and denormal); non-trivial = position of a non-uniform class or within 2^-40 plane units of a cell border of its depth; distinct by (depth, lon bits, lat bits)",
    assumptions: vec![
      "containment is judged in the projection plane against the harness' own Calabretta-Roukema projection and integer lattice model, tolerance tau = 2^-44*max(1,|lon|*4/pi/8) plane units".into(),
      "sampling, not proof: floats are sampled, aimed at seams by construction".into(),
    ],
  }
}

pub fn facts(v: Violation, depth: u8, lon: f64, lat: f64) -> Violation {
  v.fact("depth", depth as f64).fact("lon", lon).fact("lat", lat).fact("abs_lon", lon.abs()).fact("abs_lat", lat.abs())
}

pub fn check_hash(c: &Case, rec: &mut Rec) -> Result<(), Violation> {
  let (d, lon, lat) = (c.depth, c.pos.lon, c.pos.lat);
  rec.eval();
  rec.class(&c.pos.class);
  let n = 1i64 << d;
  let near = geom::dist_to_border(n, lon, lat) * (n as f64) < (2.0f64).powi(-40) * n as f64;
  if near {
    rec.class("near_border");
  }
  if c.pos.is_special() || near {
    rec.nontrivial(fp_of(&(d, lon.to_bits(), lat.to_bits())));
  }
  rec.sample(|| json!(c));
  let h = match catch(|| nested::hash(d, lon, lat)) {
    Ok(h) => h,
    Err(p) => return Err(facts(Violation::new("hash_total", "panic", format!("nested::hash({}, {:e}, {:e}) panicked: {}", d, lon, lat, p)), d, lon, lat)),
  };
  if h >= lattice::n_hash(d) {
    return Err(facts(Violation::new("hash_range", "out_of_range", format!("nested::hash({}, {:e}, {:e}) = {} >= {}", d, lon, lat, h, lattice::n_hash(d))), d, lon, lat));
  }
  let cell = lattice::nested_decode(d, h);
  let out = geom::outside_by(n, cell, lon, lat);
  let tau = geom::tau(lon);
  rec.metric_max("outside_by_over_tau", out / tau);
  if !(out <= tau) {
    return Err(facts(
      Violation::new(
        "hash_contains",
        "not_contained",
        format!("nested::hash({}, {:e}, {:e}) = {} = {:?}: the position is {:.3e} plane units ({:.3e} cell half-diagonals) outside that cell", d, lon, lat, h, cell, out, out * n as f64),
      )
      .fact("outside_cells", out * n as f64),
      d,
      lon,
      lat,
    ));
  }
  // the Layer method is the same function
  let h2 = match catch(|| nested::get_or_create(d).hash(lon, lat)) {
    Ok(h) => h,
    Err(p) => return Err(facts(Violation::new("hash_total", "panic", format!("Layer::hash panicked: {}", p)), d, lon, lat)),
  };
  if h2 != h {
    return Err(facts(Violation::new("hash_layer_agrees", "mismatch", format!("Layer::hash = {} but nested::hash = {}", h2, h)), d, lon, lat));
  }
  Ok(())
}

pub fn check_bad_lat(c: &BadLat, rec: &mut Rec) -> Result<(), Violation> {
  rec.eval();
  rec.class(if c.lat.is_nan() { "nan" } else if c.lat.is_infinite() { "inf" } else if c.lat.abs() < 1.5708 { "ulps_outside" } else { "far_outside" });
  rec.nontrivial(fp_of(&(c.depth, c.lon.to_bits(), c.lat.to_bits())));
  rec.sample(|| json!(c));
  for (name, r) in [
    ("nested::hash", catch(|| nested::hash(c.depth, c.lon, c.lat))),
    ("Layer::hash", catch(|| nested::get_or_create(c.depth).hash(c.lon, c.lat))),
  ] {
    if let Ok(h) = r {
      return Err(facts(
        Violation::new("hash_rejects_bad_lat", "no_panic", format!("{}({}, {:e}, lat={:e}) returned {} instead of panicking", name, c.depth, c.lon, c.lat, h)),
        c.depth,
        c.lon,
        c.lat,
      ));
    }
  }
  Ok(())
}

fn strat() -> BoxedStrategy<Case> {
  (gens::depth(), gens::position()).prop_map(|(depth, pos)| Case { depth, pos }).boxed()
}

fn strat_bad() -> BoxedStrategy<BadLat> {
  (gens::depth(), -26.0f64..26.0, gens::invalid_lat()).prop_map(|(depth, lon, lat)| BadLat { depth, lon, lat }).boxed()
}

pub fn run(ctx: &Ctx, rep: &mut Report) {
  let big = ctx.profile == "release";
  let n = match (ctx.tier, big) {
    (Tier::Quick, true) => 20_000_000,
    (Tier::Quick, false) => 4_000_000,
    (Tier::Thorough, true) => 600_000_000,
    (Tier::Thorough, false) => 100_000_000,
  };
  ctx.run_random(rep, "hash", strat, n, check_hash);
  ctx.run_random(rep, "bad_lat", strat_bad, ctx.tier.pick(40_000, 1_000_000), check_bad_lat);
}

pub fn replay(ctx: &Ctx, rep: &mut Report, section: &str, case: &Value) -> Result<(), String> {
  match section {
    "hash" => ctx.run_one(rep, section, &super::de::<Case>(case)?, check_hash),
    "bad_lat" => ctx.run_one(rep, section, &super::de::<BadLat>(case)?, check_bad_lat),
    _ => return Err(format!("C01: unknown section {}", section)),
  }
  Ok(())
}
