//! C17 -- HEALPix projection and de-projection are inverse, in range, base-cell exact.

use crate::engine::*;
use crate::gens::{self, Pos};
use crate::model::geom::{self, nudge, HALF_PI, TWO_PI};
use crate::model::lattice::{self, Cell};
use proptest::prelude::*;
use serde::{Deserialize, Serialize};
use serde_json::{json, Value};
use std::f64::consts::PI;

#[derive(Clone, Debug, Serialize, Deserialize)]
pub struct PCase {
  pub pos: Pos,
}

#[derive(Clone, Debug, Serialize, Deserialize)]
pub struct XY {
  pub x: f64,
  pub y: f64,
  pub class: String,
}

#[derive(Clone, Debug, Serialize, Deserialize)]
pub struct Bad {
  pub a: f64,
  pub bad: f64,
}

pub fn meta() -> PropMeta {
  PropMeta {
    id: "C17",
    rule: "positions from the 5-class generator (sections proj / base_cell) and plane points (x in [-8,8], y in [-2,2]) of classes equatorial / cap interior / cap seam / |y|=1 / |y|=2 / integer x +-2ulp (section plane); non-trivial = position of a non-uniform class, or plane point of a class other than 'equatorial'; distinct by the bits of the two coordinates",
    assumptions: vec![
      "reference = harness' own Calabretta-Roukema formulae; tolerances: 4e-15*max(1,|lon*4/pi|) on (x,y), 1e-14*max(1,|lon|/2pi) rad on the sphere, 1e-14 on the plane round trip".into(),
      "plane points closer than 1e-12 (plane units) to a pole: the x of the plane round trip is not compared (not recoverable: the whole segment is one point of the sphere); the comparison with the reference on the sphere is made down to 1e-13".into(),
    ],
  }
}

fn pf(v: Violation, lon: f64, lat: f64) -> Violation {
  v.fact("lon", lon).fact("lat", lat).fact("abs_lon", lon.abs()).fact("abs_lat", lat.abs())
}

pub fn check_proj(c: &PCase, rec: &mut Rec) -> Result<(), Violation> {
  let (lon, lat) = (c.pos.lon, c.pos.lat);
  rec.eval();
  rec.class(&c.pos.class);
  if c.pos.is_special() {
    rec.nontrivial(fp_f64s(&[lon, lat]));
  }
  rec.sample(|| json!(c));
  let (x, y) = match catch(|| cdshealpix::proj(lon, lat)) {
    Ok(v) => v,
    Err(p) => return Err(pf(Violation::new("proj_total", "panic", format!("proj({:e}, {:e}) panicked: {}", lon, lat, p)), lon, lat)),
  };
  if !(x.abs() <= 8.0) || !(y.abs() <= 2.0) {
    return Err(pf(Violation::new("proj_range", "out_of_range", format!("proj({:e}, {:e}) = ({:e}, {:e})", lon, lat, x, y)), lon, lat));
  }
  if (lon > 0.0 && x < 0.0) || (lon < 0.0 && x > 0.0) || (lat > 0.0 && y < 0.0) || (lat < 0.0 && y > 0.0) {
    return Err(pf(Violation::new("proj_sign", "wrong_sign", format!("proj({:e}, {:e}) = ({:e}, {:e})", lon, lat, x, y)), lon, lat));
  }
  let (xr, yr) = geom::proj_ref(lon.abs(), lat);
  let t = (lon * 4.0 / PI).abs();
  let tol = 4e-15 * t.max(1.0);
  let ex = geom::dx_cyc(x.abs(), xr).abs();
  let ey = (y - yr).abs();
  rec.metric_max("proj_err_over_tol", ex.max(ey) / tol);
  if !(ex <= tol && ey <= tol) {
    return Err(pf(
      Violation::new("proj_formula", "mismatch", format!("proj({:e}, {:e}) = ({:e}, {:e}) but the reference formulae give (+-{:e}, {:e}); errors ({:.3e}, {:.3e}) > {:.3e}", lon, lat, x, y, xr, yr, ex, ey, tol)),
      lon,
      lat,
    ));
  }
  // sphere round trip
  let (l2, b2) = match catch(|| cdshealpix::unproj(x, y)) {
    Ok(v) => v,
    Err(p) => return Err(pf(Violation::new("unproj_total", "panic", format!("unproj(proj({:e}, {:e}) = ({:e}, {:e})) panicked: {}", lon, lat, x, y, p)), lon, lat)),
  };
  if !(b2.abs() <= HALF_PI) || !(l2.abs() <= TWO_PI * (1.0 + 1e-15)) || (x > 0.0 && l2 < 0.0) || (x < 0.0 && l2 > 0.0) {
    return Err(pf(Violation::new("unproj_range", "out_of_range", format!("unproj({:e}, {:e}) = ({:e}, {:e})", x, y, l2, b2)), lon, lat));
  }
  let d = geom::ang_dist(lon, lat, l2, b2);
  let tol = 1e-14 * (lon.abs() / TWO_PI).max(1.0);
  rec.metric_max("roundtrip_rad_over_tol", d / tol);
  if !(d <= tol) {
    return Err(pf(Violation::new("sphere_roundtrip", "too_far", format!("unproj(proj({:e}, {:e})) = ({:e}, {:e}), {:.3e} rad away", lon, lat, l2, b2, d)), lon, lat));
  }
  Ok(())
}

pub fn check_base_cell(c: &PCase, rec: &mut Rec) -> Result<(), Violation> {
  let (lon, lat) = (c.pos.lon, c.pos.lat);
  rec.eval();
  rec.class(&c.pos.class);
  if c.pos.is_special() {
    rec.nontrivial(fp_f64s(&[lon, lat]));
  }
  rec.sample(|| json!(c));
  let (x, y) = match catch(|| cdshealpix::proj(lon, lat)) {
    Ok(v) => v,
    Err(_) => return Ok(()), // judged by check_proj
  };
  let b = match catch(|| cdshealpix::base_cell_from_proj_coo(x, y)) {
    Ok(b) => b,
    Err(p) => {
      return Err(pf(Violation::new("base_cell", "panic", format!("base_cell_from_proj_coo(proj({:e}, {:e}) = ({:e}, {:e})) panicked: {}", lon, lat, x, y, p)).fact("x", x).fact("y", y), lon, lat))
    }
  };
  if b >= 12 {
    return Err(pf(Violation::new("base_cell", "out_of_range", format!("base_cell_from_proj_coo({:e}, {:e}) = {}", x, y, b)).fact("x", x).fact("y", y), lon, lat));
  }
  let out = geom::outside_by(1, Cell { b, i: 0, j: 0 }, lon, lat);
  if !(out <= geom::tau(lon)) {
    return Err(pf(
      Violation::new("base_cell", "not_contained", format!("base_cell_from_proj_coo(proj({:e}, {:e}) = ({:e}, {:e})) = {}, position is {:.3e} plane units outside that base cell", lon, lat, x, y, b, out))
        .fact("x", x)
        .fact("y", y),
      lon,
      lat,
    ));
  }
  // equals the depth-0 hash away from borders
  if geom::dist_to_border(1, lon, lat) > 1e-9 {
    if let Ok(h) = catch(|| cdshealpix::nested::hash(0, lon, lat)) {
      if h != b as u64 {
        return Err(pf(Violation::new("base_cell", "differs_from_hash", format!("base_cell_from_proj_coo = {} but nested::hash(0, {:e}, {:e}) = {}", b, lon, lat, h)), lon, lat));
      }
    }
  }
  Ok(())
}

pub fn check_plane(c: &XY, rec: &mut Rec) -> Result<(), Violation> {
  let (x, y) = (c.x, c.y);
  rec.eval();
  rec.class(&c.class);
  if c.class != "equatorial" {
    rec.nontrivial(fp_f64s(&[x, y]));
  }
  rec.sample(|| json!(c));
  let vf = |v: Violation| v.fact("x", x).fact("y", y).fact("abs_y", y.abs());
  let (lon, lat) = match catch(|| cdshealpix::unproj(x, y)) {
    Ok(v) => v,
    Err(p) => return Err(vf(Violation::new("unproj_total", "panic", format!("unproj({:e}, {:e}) panicked: {}", x, y, p)))),
  };
  if !(lat.abs() <= HALF_PI) || !lon.is_finite() {
    return Err(vf(Violation::new("unproj_range", "out_of_range", format!("unproj({:e}, {:e}) = ({:e}, {:e})", x, y, lon, lat))));
  }
  // reference inverse agrees on the sphere
  let (lr, br) = geom::unproj_ref(x.abs(), y);
  // closer than 1e-13 plane units to a pole only the latitude is compared (see assumptions)
  let near_pole = 2.0 - y.abs() <= 1e-12;
  let d = if near_pole { (lat - br).abs().max(if 2.0 - y.abs() > 1e-13 { geom::ang_dist(lon.abs(), lat, lr, br) } else { 0.0 }) } else { geom::ang_dist(lon.abs(), lat, lr, br) };
  rec.metric_max("unproj_vs_ref_rad", d);
  if !(d <= 1e-14) {
    return Err(vf(Violation::new("unproj_formula", "mismatch", format!("unproj({:e}, {:e}) = ({:e}, {:e}) but the reference gives (+-{:e}, {:e}), {:.3e} rad away", x, y, lon, lat, lr, br, d))));
  }
  // the base cell of a point given directly in the plane (exactly representable borders, corners,
  // x = 8): a base cell containing the point
  {
    let b = match catch(|| cdshealpix::base_cell_from_proj_coo(x, y)) {
      Ok(b) => b,
      Err(p) => return Err(vf(Violation::new("base_cell_plane", "panic", format!("base_cell_from_proj_coo({:e}, {:e}) panicked: {}", x, y, p)))),
    };
    let lon_ref = if x < 0.0 { -lr } else { lr };
    let out = if b < 12 { geom::outside_by(1, Cell { b, i: 0, j: 0 }, lon_ref, br) } else { f64::INFINITY };
    if !(out <= geom::tau(lon_ref)) {
      return Err(vf(Violation::new("base_cell_plane", "not_contained", format!("base_cell_from_proj_coo({:e}, {:e}) = {}: the point is {:.3e} plane units outside that base cell", x, y, b, out))));
    }
  }
  let (x2, y2) = match catch(|| cdshealpix::proj(lon, lat)) {
    Ok(v) => v,
    Err(p) => return Err(vf(Violation::new("proj_total", "panic", format!("proj(unproj({:e}, {:e}) = ({:e}, {:e})) panicked: {}", x, y, lon, lat, p)))),
  };
  let ey = (y2 - y).abs();
  // x is compared modulo 8 and up to the sign convention (x = -8 and x = 8 and x = 0 are one meridian)
  // A point on a cap seam has two images (east border of facet q == west border of facet q+1):
  // either is the projection of the same point of the sphere.
  let mut xs = vec![x.rem_euclid(8.0)];
  if y.abs() > 1.0 {
    let s = 2.0 - y.abs();
    let xa = x.abs().rem_euclid(8.0);
    let q = (xa * 0.5).floor().min(3.0);
    let off = xa - (2.0 * q + 1.0);
    if (off - s).abs() <= 1e-14 {
      xs.push((2.0 * q + 3.0 - s).rem_euclid(8.0) * if x < 0.0 { -1.0 } else { 1.0 });
    }
    if (off + s).abs() <= 1e-14 {
      xs.push((2.0 * q - 1.0 + s).rem_euclid(8.0) * if x < 0.0 { -1.0 } else { 1.0 });
    }
  }
  let ex = if near_pole { 0.0 } else { xs.iter().map(|xe| geom::dx_cyc(x2.rem_euclid(8.0), xe.rem_euclid(8.0)).abs()).fold(f64::INFINITY, f64::min) };
  rec.metric_max("plane_roundtrip_err", ex.max(ey));
  if !(ex <= 1e-14 && ey <= 1e-14) {
    return Err(vf(Violation::new("plane_roundtrip", "mismatch", format!("proj(unproj({:e}, {:e})) = ({:e}, {:e}); errors ({:.3e}, {:.3e})", x, y, x2, y2, ex, ey))));
  }
  Ok(())
}

pub fn check_bad_lat(c: &Bad, rec: &mut Rec) -> Result<(), Violation> {
  rec.eval();
  rec.nontrivial(fp_f64s(&[c.a, c.bad]));
  rec.sample(|| json!(c));
  if let Ok(v) = catch(|| cdshealpix::proj(c.a, c.bad)) {
    return Err(Violation::new("proj_rejects", "no_panic", format!("proj({:e}, lat={:e}) returned {:?} instead of panicking", c.a, c.bad, v)).fact("lat", c.bad));
  }
  Ok(())
}

pub fn check_bad_y(c: &Bad, rec: &mut Rec) -> Result<(), Violation> {
  rec.eval();
  rec.nontrivial(fp_f64s(&[c.a, c.bad]));
  rec.sample(|| json!(c));
  if let Ok(v) = catch(|| cdshealpix::unproj(c.a, c.bad)) {
    return Err(Violation::new("unproj_rejects", "no_panic", format!("unproj({:e}, y={:e}) returned {:?} instead of panicking", c.a, c.bad, v)).fact("y", c.bad));
  }
  Ok(())
}

fn strat_pos() -> BoxedStrategy<PCase> {
  gens::position().prop_map(|pos| PCase { pos }).boxed()
}

fn sgn() -> BoxedStrategy<f64> {
  prop_oneof![Just(1.0f64), Just(-1.0f64)].boxed()
}

fn strat_xy() -> BoxedStrategy<XY> {
  let cap = |class: &'static str, pm1: BoxedStrategy<f64>, ay: BoxedStrategy<f64>| {
    (0u8..4, pm1, ay, sgn(), sgn(), -2i32..=2)
      .prop_map(move |(q, pm1, ay, sx, sy, k)| {
        let s = 2.0 - ay;
        let x = (2 * q + 1) as f64 + pm1 * s;
        XY { x: nudge(sx * x, k).max(-8.0).min(8.0), y: sy * ay, class: class.to_string() }
      })
      .boxed()
  };
  prop_oneof![
    3 => (-8.0f64..=8.0, -1.0f64..=1.0).prop_map(|(x, y)| XY { x, y, class: "equatorial".into() }),
    3 => cap("cap_interior", (-1.0f64..=1.0).boxed(), (1.0f64..=2.0).boxed()),
    2 => cap("cap_seam", prop_oneof![Just(1.0f64), Just(-1.0f64)].boxed(), (1.0f64..=2.0).boxed()),
    1 => cap("near_pole", (-1.0f64..=1.0).boxed(), (1i32..=17).prop_map(|k| 2.0 - (10.0f64).powi(-k)).boxed()),
    1 => (-8.0f64..=8.0, sgn(), -2i32..=2).prop_map(|(x, s, k)| XY { x, y: s * nudge(1.0, k), class: "abs_y_1".into() }),
    1 => (0u8..4, 1.0f64..=1.999999999999, sgn(), sgn(), -2i32..=2).prop_map(|(q, ay, sx, sy, k)| XY { x: sx * nudge((2 * q + 1) as f64, k), y: sy * ay, class: "cap_facet_centre_meridian".into() }),
    1 => (0u8..4, sgn(), sgn()).prop_map(|(q, sx, sy)| XY { x: sx * (2 * q + 1) as f64, y: sy * 2.0, class: "abs_y_2".into() }),
    2 => (-8i32..=8, -1.0f64..=1.0, -2i32..=2).prop_map(|(xi, y, k)| XY { x: nudge(xi as f64, k).max(-8.0).min(8.0), y, class: "integer_x".into() }),
    1 => (-8i32..=8, sgn()).prop_filter_map("corner inside the image", |(xi, sy)| {
      // facet corners on |y| = 1 and the transition points
      Some(XY { x: xi as f64, y: sy, class: "facet_corner".into() })
    }),
  ]
  .boxed()
}

fn strat_bad_lat() -> BoxedStrategy<Bad> {
  (-26.0f64..26.0, gens::invalid_lat()).prop_map(|(a, bad)| Bad { a, bad }).boxed()
}

fn strat_bad_y() -> BoxedStrategy<Bad> {
  let bad = prop_oneof![
    (1i32..=4, any::<bool>()).prop_map(|(k, neg)| if neg { -nudge(2.0, k) } else { nudge(2.0, k) }),
    prop::sample::select(vec![2.5f64, -3.0, f64::INFINITY, f64::NEG_INFINITY, f64::NAN, 1e300]),
    (2.0f64..100.0, any::<bool>()).prop_map(|(v, neg)| if neg { -nudge(v, 1) } else { nudge(v, 1) }),
  ];
  (-8.0f64..=8.0, bad).prop_map(|(a, bad)| Bad { a, bad }).boxed()
}

pub fn run(ctx: &Ctx, rep: &mut Report) {
  let big = ctx.profile == "release";
  let f = if big { 1 } else { 5 };
  let n = ctx.tier.pick(6_000_000u64, 300_000_000) / f;
  ctx.run_random(rep, "proj", strat_pos, n, check_proj);
  ctx.run_random(rep, "plane", strat_xy, n, check_plane);
  ctx.run_random(rep, "base_cell", strat_pos, n, check_base_cell);
  ctx.run_random(rep, "bad_lat", strat_bad_lat, ctx.tier.pick(40_000, 1_000_000), check_bad_lat);
  ctx.run_random(rep, "bad_y", strat_bad_y, ctx.tier.pick(40_000, 1_000_000), check_bad_y);
  let _ = lattice::n_hash(0);
}

pub fn replay(ctx: &Ctx, rep: &mut Report, section: &str, case: &Value) -> Result<(), String> {
  match section {
    "proj" => ctx.run_one(rep, section, &super::de::<PCase>(case)?, check_proj),
    "plane" => ctx.run_one(rep, section, &super::de::<XY>(case)?, check_plane),
    "base_cell" => ctx.run_one(rep, section, &super::de::<PCase>(case)?, check_base_cell),
    "bad_lat" => ctx.run_one(rep, section, &super::de::<Bad>(case)?, check_bad_lat),
    "bad_y" => ctx.run_one(rep, section, &super::de::<Bad>(case)?, check_bad_y),
    _ => return Err(format!("C17: unknown section {}", section)),
  }
  Ok(())
}
