//! Shared pieces of the BMOC properties (C07, C08, C09, C15): generated BMOC specifications,
//! construction of the crate's BMOC through its public builder, model view of a crate BMOC.

use crate::engine::Violation;
use crate::model::bmoc::{self as mb, Iv, MCell};
use cdshealpix::nested::bmoc::{BMOCBuilderUnsafe, BMOC};
use proptest::prelude::*;
use serde::{Deserialize, Serialize};

#[derive(Clone, Debug, Serialize, Deserialize, PartialEq)]
pub struct Spec {
  pub depth_max: u8,
  /// well-formed, sorted, non-overlapping
  pub cells: Vec<(u8, u64, bool)>,
  pub shape: String,
}

impl Spec {
  pub fn mcells(&self) -> Vec<MCell> {
    self.cells.iter().map(|&(depth, hash, full)| MCell { depth, hash, full }).collect()
  }
  pub fn intervals(&self, target_depth: u8) -> Vec<Iv> {
    mb::to_intervals(self.depth_max, target_depth, &self.mcells())
  }
  pub fn all_full(&self) -> bool {
    self.cells.iter().all(|c| c.2)
  }
  pub fn from_mcells(depth_max: u8, cells: &[MCell], shape: &str) -> Spec {
    Spec { depth_max, cells: cells.iter().map(|c| (c.depth, c.hash, c.full)).collect(), shape: shape.to_string() }
  }
  /// canonical packed form of the full leaves (partial cells dropped): an ordinary MOC
  pub fn packed(&self) -> Spec {
    let iv: Vec<Iv> = self.intervals(self.depth_max).into_iter().filter(|i| i.state == mb::FULL).collect();
    // merge adjacent
    let mut merged: Vec<Iv> = vec![];
    for i in iv {
      if let Some(l) = merged.last_mut() {
        if l.end == i.start {
          l.end = i.end;
          continue;
        }
      }
      merged.push(i);
    }
    Spec::from_mcells(self.depth_max, &mb::canonical_cells(self.depth_max, &merged), &format!("{}+packed", self.shape))
  }
  /// a partial cell of one strictly contains / is contained in a cell of the other, or (full only) any strict nesting
  pub fn nests_with(&self, other: &Spec, need_partial: bool) -> bool {
    let dm = self.depth_max.max(other.depth_max);
    let a: Vec<(u64, u64, bool)> = self.mcells().iter().map(|c| { let (s, e) = mb::leaf_range(self.depth_max, c); let up = 2 * (dm - self.depth_max) as u32; (s << up, e << up, c.full) }).collect();
    let b: Vec<(u64, u64, bool)> = other.mcells().iter().map(|c| { let (s, e) = mb::leaf_range(other.depth_max, c); let up = 2 * (dm - other.depth_max) as u32; (s << up, e << up, c.full) }).collect();
    let (mut i, mut j) = (0usize, 0usize);
    while i < a.len() && j < b.len() {
      let (x, y) = (a[i], b[j]);
      if x.1 <= y.0 {
        i += 1;
      } else if y.1 <= x.0 {
        j += 1;
      } else {
        // overlap: strictly nested if the sizes differ
        let strict = (x.1 - x.0) != (y.1 - y.0);
        if strict && (!need_partial || !x.2 || !y.2) {
          return true;
        }
        if x.1 <= y.1 {
          i += 1;
        } else {
          j += 1;
        }
      }
    }
    false
  }
}

/// Build the crate's BMOC from a specification through the public unsafe builder.
pub fn build(spec: &Spec) -> BMOC {
  let mut b = BMOCBuilderUnsafe::new(spec.depth_max, spec.cells.len().max(1));
  for &(d, h, f) in &spec.cells {
    b.push(d, h, f);
  }
  b.to_bmoc()
}

/// Model view (decoded, checked cells) of a crate BMOC; an ill-formed BMOC is a violation.
pub fn model_cells(check: &str, what: &str, b: &BMOC) -> Result<Vec<MCell>, Violation> {
  let raw: Vec<u64> = b.entries.iter().copied().collect();
  mb::well_formed(b.get_depth_max(), &raw).map_err(|e| Violation::new(check, "ill_formed", format!("{} is not a well-formed BMOC (depth_max {}): {}; raw entries {:?}", what, b.get_depth_max(), e, &raw[..raw.len().min(16)])))
}

pub fn depth_max_strategy() -> BoxedStrategy<u8> {
  prop_oneof![3 => 0u8..=3, 2 => prop::sample::select(vec![4u8, 5, 8, 12, 20, 28, 29]), 1 => 0u8..=29].boxed()
}

/// Random valid BMOC: cells clustered around a few anchors so that siblings, nesting conflicts
/// and coarse-next-to-fine shapes are frequent; `mixed` = flags drawn at random, else all full.
pub fn random_spec(depth_max: u8, mixed: bool) -> BoxedStrategy<Spec> {
  prop::collection::vec(0.0f64..1.0, 3).prop_flat_map(move |fr| random_spec_at(depth_max, mixed, fr)).boxed()
}

/// Same, with the anchors given as fractions of the leaf universe (so that two BMOCs of different
/// depth_max can be clustered around the same places of the sphere).
pub fn random_spec_at(depth_max: u8, mixed: bool, anchor_fractions: Vec<f64>) -> BoxedStrategy<Spec> {
  let nl = mb::n_leaves(depth_max);
  let anchors: Vec<u64> = anchor_fractions.iter().map(|f| ((f * nl as f64) as u64).min(nl - 1)).collect();
  let cell = (0usize..3, 0u8..=depth_max, prop_oneof![3 => Just(0u8), 2 => 1u8..=3, 1 => 0u8..=29], -4i64..=4, any::<bool>(), any::<bool>());
  (Just(anchors), prop::collection::vec(cell, 0..28), 0u8..10, prop::collection::vec((0u8..10, any::<u64>()), 12), prop::collection::vec((0.0f64..1.0, 1u8..=3), 0..4))
    .prop_map(move |(anchors, cells, degenerate, per_base, splits)| {
      let mut cand: Vec<MCell> = vec![];
      for (ai, d_uniform, d_from_max, off, flag, use_uniform) in cells {
        let d = if use_uniform { d_uniform } else { depth_max.saturating_sub(d_from_max) };
        let n = 12u64 << (2 * d as u32);
        let base = (anchors[ai] >> (2 * (depth_max - d) as u32)) as i64;
        let h = (base + off).max(0).min(n as i64 - 1) as u64;
        cand.push(MCell { depth: d, hash: h, full: if mixed { flag } else { true } });
      }
      let mut shape = "random";
      match degenerate {
        0 => {
          cand.clear();
          shape = "empty";
        }
        1 => {
          // (mixed: each base cell full or partial)
          cand = (0..12).map(|h| MCell { depth: 0, hash: h, full: !mixed || per_base[h as usize].1 >> 62 & 1 == 0 }).collect();
          shape = "all_sky";
        }
        2 => {
          cand = vec![MCell { depth: depth_max, hash: if anchors[0] & 1 == 0 { 0 } else { nl - 1 }, full: !mixed || per_base[0].1 >> 62 & 1 == 0 }];
          shape = "single_first_or_last_leaf";
        }
        3 if depth_max > 0 => {
          // every child of one parent but one (plus the random cells)
          let p = anchors[0] >> 2;
          let skip = anchors[1] & 3;
          for k in 0..4u64 {
            if k != skip {
              cand.push(MCell { depth: depth_max, hash: (p << 2) | k, full: !mixed || per_base[k as usize].1 >> 61 & 3 != 0 });
            }
          }
          shape = "three_siblings";
        }
        4 => {
          // nearly the whole sky: most base cells entirely, some absent, some reduced to one
          // deeper cell, some keeping the random cells that fell into them
          let in_base = |c: &MCell| (c.hash >> (2 * c.depth as u32)) as usize;
          cand.retain(|c| per_base[in_base(c)].0 == 9);
          for (b, &(choice, bits)) in per_base.iter().enumerate() {
            match choice {
              0..=6 => cand.push(MCell { depth: 0, hash: b as u64, full: !mixed || bits >> 62 & 3 != 0 }),
              8 if depth_max > 0 => {
                let d = 1 + (bits % depth_max.min(4) as u64) as u8;
                let h = ((b as u64) << (2 * d as u32)) | ((bits >> 8) & ((1u64 << (2 * d as u32)) - 1));
                cand.push(MCell { depth: d, hash: h, full: !mixed || bits >> 63 == 0 });
              }
              _ => {}
            }
          }
          shape = "mostly_base_cells";
        }
        _ => {}
      }
      // keep a non-overlapping subset: sort by start, coarser first
      cand.sort_by_key(|c| (mb::leaf_range(depth_max, c).0, c.depth));
      let mut out: Vec<MCell> = vec![];
      let mut end = 0u64;
      for c in cand {
        let (s, e) = mb::leaf_range(depth_max, &c);
        if s >= end {
          out.push(c);
          end = e;
        }
      }
      // un-pack: replace some cells by their 4 children, 1..3 levels down (same cell-to-state map;
      // four full siblings, cascades of them and coarse-next-to-fine shapes that only a real
      // packing / merging pass removes)
      let mut split_any = false;
      for (fr, levels) in splits {
        if out.is_empty() {
          break;
        }
        let k = ((fr * out.len() as f64) as usize).min(out.len() - 1);
        let c = out[k];
        let levels = levels.min(depth_max - c.depth);
        if levels == 0 {
          continue;
        }
        let n = 1u64 << (2 * levels as u32);
        let kids: Vec<MCell> = (0..n).map(|q| MCell { depth: c.depth + levels, hash: (c.hash << (2 * levels as u32)) | q, full: c.full }).collect();
        out.splice(k..=k, kids);
        split_any = true;
      }
      let shape = if split_any { format!("{}+split", shape) } else { shape.to_string() };
      Spec::from_mcells(depth_max, &out, &shape)
    })
    .boxed()
}

/// A pair of specs with equal or different depth_max.
pub fn spec_pair(mixed: bool) -> BoxedStrategy<(Spec, Spec)> {
  (depth_max_strategy(), depth_max_strategy(), any::<bool>(), prop::collection::vec(0.0f64..1.0, 3))
    .prop_flat_map(move |(d1, d2, same, fr)| {
      let d2 = if same { d1 } else { d2 };
      (random_spec_at(d1, mixed, fr.clone()), random_spec_at(d2, mixed, fr))
    })
    .boxed()
}
