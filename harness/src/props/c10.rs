//! C10 -- NESTED <-> RING conversion is a bijection that realises the RING ordering.

use crate::engine::*;
use crate::gens;
use crate::model::geom;
use crate::model::lattice::{self, Cell};
use cdshealpix::{nested, ring};
use proptest::prelude::*;
use serde::{Deserialize, Serialize};
use serde_json::{json, Value};

/// A cell given by its RING index at a depth.
#[derive(Clone, Debug, Serialize, Deserialize)]
pub struct Case {
  pub depth: u8,
  pub r: u64,
  pub class: String,
}

pub fn meta() -> PropMeta {
  PropMeta {
    id: "C10",
    rule: "all RING indices of depth 0..=8 (quick) / 0..=11 (thorough) enumerated (conversion both ways, centres, ordering of consecutive indices); depth 9..=29: generated ring-boundary classes (first / second / last / random cell of polar rings 1..64, rings within 64 of nside, log-spaced rings, both transition rings, equator ring, mirrored in the south) plus uniform indices; non-trivial = depth >= 10 or first/last cell of a ring; distinct by (depth, ring index)",
    assumptions: vec!["reference RING index = the definition (rings by decreasing y, cells by increasing x) evaluated in exact integer arithmetic on the lattice model; closed form cross-checked against a brute-force sort for nside <= 16".into()],
  }
}

fn ulps_apart(a: f64, b: f64) -> u64 {
  if a == b {
    return 0;
  }
  if a.is_nan() || b.is_nan() || (a < 0.0) != (b < 0.0) {
    return u64::MAX;
  }
  let (x, y) = (a.abs().to_bits(), b.abs().to_bits());
  if x > y { x - y } else { y - x }
}

pub fn check(c: &Case, rec: &mut Rec) -> Result<(), Violation> {
  let d = c.depth;
  let n = 1i64 << d;
  let r = c.r;
  rec.eval();
  rec.class(&c.class);
  let (xc, yc) = lattice::center_of_ring_index(n, r);
  let i_ring = 2 * n - 1 - yc;
  let first_of_ring = lattice::cells_before_ring(n, i_ring) as u64 == r;
  let last_of_ring = lattice::cells_before_ring(n, i_ring + 1) as u64 == r + 1;
  if d >= 10 || first_of_ring || last_of_ring {
    rec.nontrivial(fp_of(&(d, r)));
  }
  if first_of_ring || last_of_ring {
    rec.class("ring_boundary");
  }
  rec.sample(|| json!(c));
  let f = |v: Violation| v.fact("depth", d as f64).fact("r", r as f64).fact("i_ring", i_ring as f64);
  let cell: Cell = lattice::cell_from_center(n, xc, yc).ok_or_else(|| Violation::new("harness", "model_error", format!("no cell at centre {:?}", (xc, yc))))?;
  let h = lattice::nested_hash(d, cell);
  let layer = nested::get_or_create(d);
  // from_ring
  let got = match catch(|| layer.from_ring(r)) {
    Ok(g) => g,
    Err(p) => return Err(f(Violation::new("from_ring", "panic", format!("from_ring({}) at depth {} panicked: {}", r, d, p)))),
  };
  if got != h {
    return Err(f(Violation::new("from_ring", "mismatch", format!("depth {}: from_ring({}) = {} but the cell of ring index {} is {} = {:?} (ring {}, centre {:?})", d, r, got, r, h, cell, i_ring, (xc, yc)))));
  }
  // to_ring
  let got = match catch(|| layer.to_ring(h)) {
    Ok(g) => g,
    Err(p) => return Err(f(Violation::new("to_ring", "panic", format!("to_ring({}) at depth {} panicked: {}", h, d, p)))),
  };
  if got != r {
    return Err(f(Violation::new("to_ring", "mismatch", format!("depth {}: to_ring({} = {:?}) = {} but by definition its ring index is {}", d, h, cell, got, r))));
  }
  // RING-scheme centre == NESTED centre of from_ring(r)
  let nside = 1u32 << d;
  let rc = match catch(|| ring::center_of_projected_cell(nside, r)) {
    Ok(g) => g,
    Err(p) => return Err(f(Violation::new("ring_center", "panic", format!("ring::center_of_projected_cell({}, {}) panicked: {}", nside, r, p)))),
  };
  let nc = match catch(|| layer.center_of_projected_cell(h)) {
    Ok(g) => g,
    Err(p) => return Err(f(Violation::new("nested_center", "panic", format!("Layer::center_of_projected_cell({}) panicked: {}", h, p)))),
  };
  let ux = ulps_apart(rc.0, nc.0).min(if geom::dx_cyc(rc.0, nc.0).abs() < 1e-15 { 0 } else { u64::MAX });
  let uy = ulps_apart(rc.1, nc.1);
  if ux > 2 || uy > 2 {
    return Err(f(Violation::new(
      "centres_agree",
      "mismatch",
      format!("depth {}: ring::center_of_projected_cell(nside {}, {}) = {:?} but NESTED centre of from_ring = cell {} is {:?}", d, nside, r, rc, h, nc),
    )));
  }
  // both equal the model centre
  let (mx, my) = (xc as f64 / n as f64, yc as f64 / n as f64);
  if geom::dx_cyc(nc.0, mx).abs() > 4e-15 || (nc.1 - my).abs() > 4e-15 {
    return Err(f(Violation::new("nested_center", "mismatch", format!("depth {}: centre of cell {} is {:?}, lattice model says {:?}", d, h, nc, (mx, my)))));
  }
  let rs = match catch(|| ring::center(nside, r)) {
    Ok(g) => g,
    Err(p) => return Err(f(Violation::new("ring_center", "panic", format!("ring::center({}, {}) panicked: {}", nside, r, p)))),
  };
  let ns = layer.center(h);
  let dd = geom::ang_dist(rs.0, rs.1, ns.0, ns.1);
  if !(dd <= 1e-14) {
    return Err(f(Violation::new("centres_agree", "sphere_mismatch", format!("depth {}: ring::center({}) = {:?} vs nested center({}) = {:?}: {:.3e} rad apart", d, r, rs, h, ns, dd))));
  }
  Ok(())
}

/// Ordering: consecutive RING indices r, r+1 (depth <= 11): latitude non-increasing, and inside
/// a ring the longitude strictly increases within [0, 2pi).
pub fn check_order(c: &Case, rec: &mut Rec) -> Result<(), Violation> {
  let d = c.depth;
  let n = 1i64 << d;
  let r = c.r;
  rec.eval();
  let layer = nested::get_or_create(d);
  let f = |v: Violation| v.fact("depth", d as f64).fact("r", r as f64);
  let a = match catch(|| layer.center(layer.from_ring(r))) {
    Ok(v) => v,
    Err(p) => return Err(f(Violation::new("order", "panic", format!("center(from_ring({})) panicked: {}", r, p)))),
  };
  if !(a.0 >= 0.0 && a.0 < geom::TWO_PI) {
    return Err(f(Violation::new("order", "lon_range", format!("depth {}: centre of ring index {} has longitude {:e}", d, r, a.0))));
  }
  if r + 1 >= lattice::n_hash(d) {
    return Ok(());
  }
  let b = match catch(|| layer.center(layer.from_ring(r + 1))) {
    Ok(v) => v,
    Err(p) => return Err(f(Violation::new("order", "panic", format!("center(from_ring({})) panicked: {}", r + 1, p)))),
  };
  let (_, ya) = lattice::center_of_ring_index(n, r);
  let (_, yb) = lattice::center_of_ring_index(n, r + 1);
  if ya == yb {
    rec.class("same_ring");
    if !((a.1 - b.1).abs() <= 2e-16 * 4.0 && b.0 > a.0) {
      return Err(f(Violation::new("order", "within_ring", format!("depth {}: ring indices {} and {} are in one ring but centres are {:?} then {:?}", d, r, r + 1, a, b))));
    }
  } else {
    rec.class("ring_change");
    rec.nontrivial(fp_of(&(d, r, 1u8)));
    if !(b.1 < a.1) {
      return Err(f(Violation::new("order", "across_rings", format!("depth {}: ring index {} starts a new ring but its latitude {:e} is not below {:e}", d, r + 1, b.1, a.1))));
    }
  }
  Ok(())
}

fn strat_deep() -> BoxedStrategy<Case> {
  (9u8..=29)
    .prop_flat_map(|d| {
      let n = 1i64 << d;
      // ring chosen by class
      let ring = prop_oneof![
        3 => (0i64..64).prop_map(|k| k),
        3 => (-64i64..=64).prop_map(move |k| n - 1 + k),
        2 => (0.0f64..1.0).prop_map(move |u| ((n as f64).powf(u) as i64 - 1).max(0)),
        1 => Just(n - 1),
        1 => Just(3 * n - 1),
        1 => Just(2 * n - 1),
        2 => (0i64..(4 * n - 1)),
        // the polar ring where 1 + 2 h first exceeds 2^53 (float sqrt of the ring index), depth >= 26
        1 => (-64i64..=64).prop_map(move |k| (47_453_132 + k).min(n - 1)),
      ];
      (ring, any::<bool>(), 0u8..9, 0.0f64..1.0).prop_map(move |(ir, south, which, u)| {
        let ir = ir.max(0).min(4 * n - 2);
        let ir = if south { 4 * n - 2 - ir } else { ir };
        let first = lattice::cells_before_ring(n, ir) as u64;
        let len = lattice::ring_len(n, ir) as u64;
        let (k, class) = match which {
          0 => (0, "first_in_ring"),
          1 => (1.min(len - 1), "second_in_ring"),
          2 => (len - 1, "last_in_ring"),
          3 => (len / 4, "quadrant_start"),
          4 => (len / 2, "quadrant_start"),
          5 => (3 * (len / 4), "quadrant_start"),
          6 => ((len / 4).max(1) - 1, "quadrant_end"),
          7 => ((1 + (u * 3.0) as u64).min(3) * (len / 4) - 1.min(len / 4), "quadrant_end"),
          _ => (((u * len as f64) as u64).min(len - 1), "random_in_ring"),
        };
        Case { depth: d, r: first + k, class: class.to_string() }
      })
    })
    .boxed()
}

fn strat_uniform() -> BoxedStrategy<Case> {
  gens::depth().prop_flat_map(|d| (0u64..lattice::n_hash(d)).prop_map(move |r| Case { depth: d, r, class: "uniform".into() })).boxed()
}

pub fn run(ctx: &Ctx, rep: &mut Report) {
  let maxd = ctx.tier.pick(8u8, 11u8);
  for d in 0..=maxd {
    ctx.run_enum(rep, &format!("all_d{}", d), lattice::n_hash(d), |r| Case { depth: d, r, class: "enumerated".into() }, check);
    ctx.run_enum(rep, &format!("order_d{}", d), lattice::n_hash(d), |r| Case { depth: d, r, class: "enumerated".into() }, check_order);
  }
  ctx.run_random(rep, "deep_ring_boundaries", strat_deep, ctx.tier.pick(1_500_000, 60_000_000), check);
  // the ordering clause (r -> r + 1) at depth 9..=29, on the same ring-boundary classes
  ctx.run_random(rep, "deep_order", strat_deep, ctx.tier.pick(600_000, 30_000_000), check_order);
  ctx.run_random(rep, "uniform", strat_uniform, ctx.tier.pick(500_000, 20_000_000), check);
}

pub fn replay(ctx: &Ctx, rep: &mut Report, section: &str, case: &Value) -> Result<(), String> {
  if section.starts_with("order") || section == "deep_order" {
    ctx.run_one(rep, section, &super::de::<Case>(case)?, check_order);
  } else {
    ctx.run_one(rep, section, &super::de::<Case>(case)?, check);
  }
  Ok(())
}
