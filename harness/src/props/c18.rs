//! C18 -- Bit-level encodings are exact: z-order interleaving and uniq numbers.

use crate::engine::*;
use crate::gens;
use crate::model::lattice::{deinterleave, interleave};
use cdshealpix::nested;
use crate::model::geom;
use cdshealpix::nested::zordercurve::{get_zoc, ZOrderCurve, LARGE_ZOC_LUT, LARGE_ZOC_XOR};
use proptest::prelude::*;
use serde::{Deserialize, Serialize};
use serde_json::{json, Value};

/// which implementation: depth given to get_zoc, or 100 = LARGE_ZOC_LUT static, 101 = LARGE_ZOC_XOR static
#[derive(Clone, Debug, Serialize, Deserialize)]
pub struct Zc {
  pub imp: u8,
  pub i: u32,
  pub j: u32,
}

#[derive(Clone, Debug, Serialize, Deserialize)]
pub struct Zh {
  pub imp: u8,
  pub h: u64,
}

/// block of an exhaustive enumeration: all j (< nj) for one i
#[derive(Clone, Debug, Serialize, Deserialize)]
pub struct ZBlock {
  pub imp: u8,
  pub i: u32,
  pub nj: u32,
  /// the row is j = (0..nj) << jshift (masked to 29 bits)
  #[serde(default)]
  pub jshift: u8,
}

#[derive(Clone, Debug, Serialize, Deserialize)]
pub struct Uq {
  pub depth: u8,
  pub hash: u64,
}

pub fn meta() -> PropMeta {
  PropMeta {
    id: "C18",
    rule: "z-order: every implementation reachable through get_zoc(depth) in this build (LUT in the default build, BMI2 in the +bmi2 build) plus the public LARGE_ZOC_LUT / LARGE_ZOC_XOR statics; small class: all 65 536 (i,j) and all 65 536 h; medium class: whole rows (one i, all 65 536 j) -- every i in the thorough tier, i.e. all 2^32 pairs; large class: byte-wise exhaustive rows (each byte of i x 4096 values of j at bit offsets 0 / 8 / 16 / 17) / walking bits / random (i,j) < 2^29; get_zoc(depth) for every depth 0..=29 with coordinates below 2^depth (depth 0 = the empty curve); xy2h (floating point entry point) = ij2h of the truncated coordinates for every pair; uniq: all depths x {0,1,n_hash-1, 4^k+-1, random}; non-trivial = a pair with i != 0 and j != 0 (both coordinates contribute bits), an h with bits on both even and odd positions, or a uniq case with hash >= 2; distinct by (implementation, i, j) / (depth, hash)",
    assumptions: vec!["reference = bit-by-bit interleave loop of the harness".into(), "the BMI2 implementations are only exercised in the +bmi2 build (the crate selects them at compile time); CPU of this sandbox has BMI2".into()],
  }
}

fn zoc(imp: u8) -> &'static dyn ZOrderCurve {
  match imp {
    100 => &LARGE_ZOC_LUT,
    101 => &LARGE_ZOC_XOR,
    d => get_zoc(d),
  }
}

fn check_pair(z: &dyn ZOrderCurve, imp: u8, i: u32, j: u32) -> Result<(), Violation> {
  let want = interleave(i, j);
  let f = |v: Violation| v.fact("imp", imp as f64).fact("i", i as f64).fact("j", j as f64);
  let h = z.ij2h(i, j);
  if h != want {
    return Err(f(Violation::new("ij2h", "mismatch", format!("impl {}: ij2h({}, {}) = {:#x}, bit-loop interleave = {:#x}", imp, i, j, h, want))));
  }
  if z.i02h(i) != interleave(i, 0) {
    return Err(f(Violation::new("i02h", "mismatch", format!("impl {}: i02h({}) = {:#x}, expected {:#x}", imp, i, z.i02h(i), interleave(i, 0)))));
  }
  if z.oj2h(j) != interleave(0, j) {
    return Err(f(Violation::new("oj2h", "mismatch", format!("impl {}: oj2h({}) = {:#x}, expected {:#x}", imp, j, z.oj2h(j), interleave(0, j)))));
  }
  // the floating point entry point truncates its coordinates (trait default: ij2h(x as u32, y as u32)),
  // whichever implementation: exact integers, mid-cell and the last double below the next integer
  for (x, y) in [(i as f64, j as f64), (i as f64 + 0.5, j as f64 + 0.5), (geom::next_down((i as f64) + 1.0), geom::next_down((j as f64) + 1.0))] {
    let hx = z.xy2h(x, y);
    if hx != want {
      return Err(f(Violation::new("xy2h", "mismatch", format!("impl {}: xy2h({:?}, {:?}) = {:#x}, ij2h of the truncated coordinates ({}, {}) = {:#x}", imp, x, y, hx, i, j, want))));
    }
  }
  let ij = z.h2ij(want);
  let (i2, j2) = (z.ij2i(ij), z.ij2j(ij));
  if (i2, j2) != (i, j) {
    return Err(f(Violation::new("h2ij", "not_inverse", format!("impl {}: h2ij({:#x}) decodes to ({}, {}), expected ({}, {})", imp, want, i2, j2, i, j))));
  }
  Ok(())
}

pub fn check_zc(c: &Zc, rec: &mut Rec) -> Result<(), Violation> {
  rec.eval();
  rec.class(&format!("imp{}", c.imp));
  if c.i != 0 && c.j != 0 {
    rec.nontrivial(fp_of(&(c.imp, c.i, c.j)));
  }
  rec.sample(|| json!(c));
  match catch(|| check_pair(zoc(c.imp), c.imp, c.i, c.j)) {
    Ok(r) => r,
    Err(p) => Err(Violation::new("zoc_total", "panic", format!("impl {} panicked on ({}, {}): {}", c.imp, c.i, c.j, p))),
  }
}

pub fn check_block(c: &ZBlock, rec: &mut Rec) -> Result<(), Violation> {
  let z = zoc(c.imp);
  rec.evals(c.nj as u64);
  rec.class_n(&format!("imp{}", c.imp), c.nj as u64);
  if c.i != 0 {
    rec.nontrivial_bulk(c.nj as u64 - 1);
  }
  rec.sample(|| json!(c));
  let r = catch(|| {
    for j in 0..c.nj {
      check_pair(z, c.imp, c.i, (j << c.jshift) & 0x1FFF_FFFF)?;
    }
    Ok(())
  });
  match r {
    Ok(r) => r,
    Err(p) => Err(Violation::new("zoc_total", "panic", format!("impl {} panicked in row i={}: {}", c.imp, c.i, p))),
  }
}

pub fn check_zh(c: &Zh, rec: &mut Rec) -> Result<(), Violation> {
  rec.eval();
  rec.class(&format!("imp{}", c.imp));
  if c.h & 0x5555_5555_5555_5555 != 0 && c.h & 0xAAAA_AAAA_AAAA_AAAA != 0 {
    rec.nontrivial(fp_of(&(c.imp, c.h)));
  }
  rec.sample(|| json!(c));
  let z = zoc(c.imp);
  let r = catch(|| {
    let ij = z.h2ij(c.h);
    (z.ij2i(ij), z.ij2j(ij))
  });
  let (i, j) = match r {
    Ok(v) => v,
    Err(p) => return Err(Violation::new("zoc_total", "panic", format!("impl {} panicked on h={:#x}: {}", c.imp, c.h, p))),
  };
  if (i, j) != deinterleave(c.h) {
    return Err(Violation::new("h2ij", "mismatch", format!("impl {}: h2ij({:#x}) -> ({}, {}), bit-loop gives {:?}", c.imp, c.h, i, j, deinterleave(c.h))).fact("imp", c.imp as f64));
  }
  Ok(())
}

pub fn check_uniq(c: &Uq, rec: &mut Rec) -> Result<(), Violation> {
  rec.eval();
  let (d, h) = (c.depth, c.hash);
  rec.sample(|| json!(c));
  let f = |v: Violation| v.fact("depth", d as f64).fact("hash", h as f64);
  if d > 29 {
    rec.class("depth_gt_29");
    rec.nontrivial(fp_of(&(d, h)));
    if let Ok(u) = catch(|| nested::to_uniq(d, h)) {
      return Err(f(Violation::new("uniq_rejects", "no_panic", format!("to_uniq({}, {}) returned {} instead of panicking", d, h, u))));
    }
    if let Ok(u) = catch(|| nested::to_uniq_ivoa(d, h)) {
      return Err(f(Violation::new("uniq_rejects", "no_panic", format!("to_uniq_ivoa({}, {}) returned {} instead of panicking", d, h, u))));
    }
    return Ok(());
  }
  rec.class("valid");
  if h >= 2 {
    rec.nontrivial(fp_of(&(d, h)));
  }
  let r = catch(|| (nested::to_uniq(d, h), nested::to_uniq_ivoa(d, h), nested::get_or_create(d).to_uniq(h), nested::get_or_create(d).to_uniq_ivoa(h)));
  let (u, ui, lu, lui) = match r {
    Ok(v) => v,
    Err(p) => return Err(f(Violation::new("uniq_total", "panic", format!("to_uniq({}, {}) panicked: {}", d, h, p)))),
  };
  let want = (16u64 << (2 * d as u32)) + h;
  let want_i = (4u64 << (2 * d as u32)) + h;
  if u != want || ui != want_i {
    return Err(f(Violation::new("uniq_value", "mismatch", format!("to_uniq({}, {}) = {} (expected {}), to_uniq_ivoa = {} (expected {})", d, h, u, want, ui, want_i))));
  }
  if lu != u || lui != ui {
    return Err(f(Violation::new("uniq_layer", "mismatch", format!("Layer::to_uniq({}) = {} / {} vs nested {} / {}", h, lu, lui, u, ui))));
  }
  let r = catch(|| (nested::from_uniq(u), nested::from_uniq_ivoa(ui)));
  let (a, b) = match r {
    Ok(v) => v,
    Err(p) => return Err(f(Violation::new("uniq_total", "panic", format!("from_uniq({}) panicked: {}", u, p)))),
  };
  if a != (d, h) || b != (d, h) {
    return Err(f(Violation::new("uniq_inverse", "mismatch", format!("from_uniq(to_uniq({}, {})) = {:?}, from_uniq_ivoa(..) = {:?}", d, h, a, b))));
  }
  Ok(())
}

fn interesting_u32(max_bits: u32) -> BoxedStrategy<u32> {
  if max_bits == 0 {
    return Just(0u32).boxed();
  }
  let mask = if max_bits >= 32 { u32::MAX } else { (1u32 << max_bits) - 1 };
  prop_oneof![
    3 => any::<u32>().prop_map(move |v| v & mask),
    2 => (0u32..max_bits).prop_map(|k| 1u32 << k),
    2 => (0u32..max_bits).prop_map(move |k| mask & !(1u32 << k)),
    2 => (0u32..4, any::<u8>(), any::<u32>()).prop_map(move |(pos, byte, rest)| ((rest & !(0xFFu32 << (8 * pos))) | ((byte as u32) << (8 * pos))) & mask),
    1 => prop::sample::select(vec![0u32, 1, 0x5555_5555, 0xAAAA_AAAA, 0xFFFF_FFFF, 0x0F0F_0F0F, 0x00FF_00FF, 0x0000_FFFF]).prop_map(move |v| v & mask),
    // runs of ones / zeros at the bottom: k 2^t - 1 and k 2^t
    2 => (0u32..=max_bits, any::<u32>(), any::<bool>()).prop_map(move |(t, hi, ones)| {
      let low = if t >= 32 { u32::MAX } else { (1u32 << t) - 1 };
      let v = if t >= 32 { 0 } else { hi << t };
      (if ones { v | low } else { v }) & mask
    }),
  ]
  .boxed()
}

fn strat_large(imps: Vec<u8>) -> impl Fn() -> BoxedStrategy<Zc> {
  move || (prop::sample::select(imps.clone()), interesting_u32(29), interesting_u32(29)).prop_map(|(imp, i, j)| Zc { imp, i, j }).boxed()
}

fn strat_zh(imps: Vec<u8>, bits: u32) -> impl Fn() -> BoxedStrategy<Zh> {
  move || {
    let mask = if bits >= 64 { u64::MAX } else { (1u64 << bits) - 1 };
    (prop::sample::select(imps.clone()), interesting_u32(32), interesting_u32(32)).prop_map(move |(imp, a, b)| Zh { imp, h: (((a as u64) << 32) | b as u64) & mask }).boxed()
  }
}

fn strat_uniq() -> BoxedStrategy<Uq> {
  let valid = gens::depth_upto(29).prop_flat_map(|d| {
    let n = 12u64 << (2 * d as u32);
    prop_oneof![
      2 => prop::sample::select(vec![0u64, 1, 2, 3]).prop_map(move |h| h.min(n - 1)),
      2 => Just(n - 1),
      3 => (0u32..=(d as u32), -1i64..=1).prop_map(move |(k, e)| (((1u64 << (2 * k)) as i64 + e).max(0) as u64).min(n - 1)),
      2 => (0u64..12, 0u32..=(d as u32)).prop_map(move |(b, k)| ((b << (2 * d as u32)) | ((1u64 << (2 * k)) - 1)).min(n - 1)),
      4 => (0u64..n),
    ]
    .prop_map(move |h| Uq { depth: d, hash: h })
  });
  let invalid = (30u8..=255, 0u64..48).prop_map(|(depth, hash)| Uq { depth, hash });
  prop_oneof![9 => valid, 1 => invalid].boxed()
}

pub fn run(ctx: &Ctx, rep: &mut Report) {
  let thorough = ctx.tier == Tier::Thorough;
  // small class: all pairs and all hashes, for both ends of the class
  for d in [1u8, 8] {
    ctx.run_enum(rep, &format!("small_pairs_d{}", d), 256, |i| ZBlock { imp: d, i: i as u32, nj: 256, jshift: 0 }, check_block);
  }
  ctx.run_enum(rep, "small_hashes", 1 << 16, |h| Zh { imp: 8, h }, check_zh);
  // medium class: rows
  if thorough {
    ctx.run_enum(rep, "medium_all_pairs_d16", 1 << 16, |i| ZBlock { imp: 16, i: i as u32, nj: 1 << 16, jshift: 0 }, check_block);
    ctx.run_enum(rep, "medium_rows_d9", 512, |i| ZBlock { imp: 9, i: i as u32, nj: 512, jshift: 0 }, check_block);
  } else {
    // every value of each byte of i, the other byte taken from a fixed pattern: 1024 rows x 65 536 j
    ctx.run_enum(
      rep,
      "medium_rows_d16",
      1024,
      |k| {
        let (pos, byte, alt) = ((k >> 9) & 1, k & 0xFF, (k >> 8) & 1);
        let other = if alt == 1 { 0xA5u32 } else { 0u32 };
        let i = if pos == 0 { (other << 8) | byte as u32 } else { ((byte as u32) << 8) | other };
        ZBlock { imp: 16, i, nj: 1 << 16, jshift: 0 }
      },
      check_block,
    );
  }
  ctx.run_random(rep, "medium_hashes", strat_zh(vec![9, 16], 32), ctx.tier.pick(1_000_000, 50_000_000), check_zh);
  // large class
  let n = ctx.tier.pick(3_000_000, 200_000_000);
  ctx.run_random(rep, "large_pairs", strat_large(vec![17, 29, 100, 101]), n, check_zc);
  ctx.run_random(rep, "large_hashes", strat_zh(vec![17, 29, 100, 101], 58), n / 2, check_zh);
  // byte-wise exhaustive rows for the large class: i = byte at each of the 4 positions, j = all 2^16 low values and shifted
  ctx.run_enum(
    rep,
    "large_bytewise",
    4 * 256 * 4 * 4,
    |k| {
      let (js, k) = (k / 4096, k % 4096);
      let (imp_k, pos, byte) = (k / 1024, (k / 256) % 4, k % 256);
      let imp = [17u8, 29, 100, 101][imp_k as usize];
      ZBlock { imp, i: (((byte as u32) << (8 * pos as u32)) & 0x1FFF_FFFF), nj: 1 << 12, jshift: [0u8, 8, 16, 17][js as usize] }
    },
    check_block,
  );
  // every depth 0..=29 through get_zoc(depth), coordinates below 2^depth (depth 0: the empty curve)
  ctx.run_random(
    rep,
    "every_depth_pairs",
    || (0u8..=29).prop_flat_map(|d| (interesting_u32(d as u32), interesting_u32(d as u32)).prop_map(move |(i, j)| Zc { imp: d, i, j })).boxed(),
    ctx.tier.pick(600_000, 30_000_000),
    check_zc,
  );
  ctx.run_random(rep, "uniq", strat_uniq, ctx.tier.pick(2_000_000, 100_000_000), check_uniq);
}

pub fn replay(ctx: &Ctx, rep: &mut Report, section: &str, case: &Value) -> Result<(), String> {
  if section == "uniq" {
    ctx.run_one(rep, section, &super::de::<Uq>(case)?, check_uniq);
  } else if section.ends_with("hashes") {
    ctx.run_one(rep, section, &super::de::<Zh>(case)?, check_zh);
  } else if section == "large_pairs" || section == "every_depth_pairs" {
    ctx.run_one(rep, section, &super::de::<Zc>(case)?, check_zc);
  } else {
    ctx.run_one(rep, section, &super::de::<ZBlock>(case)?, check_block);
  }
  Ok(())
}
