//! C11 -- RING scheme works for any NSIDE, not only powers of two.

use crate::engine::*;
use crate::gens::{self, Pos};
use crate::model::geom;
use crate::model::lattice;
use cdshealpix::ring;
use proptest::prelude::*;
use serde::{Deserialize, Serialize};
use serde_json::{json, Value};

#[derive(Clone, Debug, Serialize, Deserialize)]
pub struct CellCase {
  pub nside: u32,
  pub h: u64,
  pub class: String,
}

#[derive(Clone, Debug, Serialize, Deserialize)]
pub struct PosCase {
  pub nside: u32,
  pub pos: Pos,
}

#[derive(Clone, Debug, Serialize, Deserialize)]
pub struct OffCase {
  pub nside: u32,
  pub h: u64,
  pub dx: f64,
  pub dy: f64,
}

#[derive(Clone, Debug, Serialize, Deserialize)]
pub struct Bad {
  pub nside: u32,
  pub h: u64,
  pub lon: f64,
  pub lat: f64,
}

pub fn meta() -> PropMeta {
  PropMeta {
    id: "C11",
    rule: "cells: every cell of every nside 1..=64 (quick) / 1..=300 (thorough) enumerated, plus generated (nside, cell) with nside from classes {1..=64, primes, 2^k, 2^k+-1, odd/even mid-size, huge up to 2^29 incl. the first values where 1+2h > 2^53} and cells from ring-boundary classes; positions: the 5-class position generator x the same nside classes; non-trivial = nside not a power of two, or position on lon = k*pi/2 / a pole / within 2^-40 of a cell border, or a first/last cell of a ring; distinct by (nside, cell) / (nside, lon bits, lat bits)",
    assumptions: vec![
      "reference = integer lattice model for any nside (ring order by definition), reference projection, tau as in C01".into(),
      "hash_with_dxdy offsets are accepted in [-t, 1+t] with t = 1e-9 + 2^-50*nside (the rounding of a plane coordinate times nside)".into(),
    ],
  }
}

fn is_pow2(n: u32) -> bool {
  n & (n - 1) == 0
}

pub fn check_cell(c: &CellCase, rec: &mut Rec) -> Result<(), Violation> {
  let n = c.nside as i64;
  let h = c.h;
  rec.eval();
  rec.class(&c.class);
  let (xc, yc) = lattice::center_of_ring_index(n, h);
  let i_ring = 2 * n - 1 - yc;
  let boundary = lattice::cells_before_ring(n, i_ring) as u64 == h || lattice::cells_before_ring(n, i_ring + 1) as u64 == h + 1;
  if !is_pow2(c.nside) || boundary {
    rec.nontrivial(fp_of(&(c.nside, h)));
  }
  if boundary {
    rec.class("ring_boundary");
  }
  rec.sample(|| json!(c));
  let f = |v: Violation| v.fact("nside", c.nside as f64).fact("h", h as f64).fact("i_ring", i_ring as f64);
  let (mx, my) = (xc as f64 / n as f64, yc as f64 / n as f64);
  let pc = match catch(|| ring::center_of_projected_cell(c.nside, h)) {
    Ok(v) => v,
    Err(p) => return Err(f(Violation::new("center", "panic", format!("ring::center_of_projected_cell({}, {}) panicked: {}", c.nside, h, p)))),
  };
  if !(geom::dx_cyc(pc.0, mx).abs() <= 4e-15 && (pc.1 - my).abs() <= 4e-15) {
    return Err(f(Violation::new(
      "center",
      "mismatch",
      format!("ring::center_of_projected_cell(nside {}, {}) = {:?}; by definition cell {} is in ring {} with centre {:?}", c.nside, h, pc, h, i_ring, (mx, my)),
    )));
  }
  let sc = match catch(|| ring::center(c.nside, h)) {
    Ok(v) => v,
    Err(p) => return Err(f(Violation::new("center", "panic", format!("ring::center({}, {}) panicked: {}", c.nside, h, p)))),
  };
  let ms = geom::unproj_ref(mx, my);
  let d = geom::ang_dist(sc.0, sc.1, ms.0, ms.1);
  rec.metric_max("center_err_rad", d);
  if !(d <= 1e-14) || !(sc.0 >= 0.0 && sc.0 <= geom::TWO_PI) {
    return Err(f(Violation::new("center", "sphere_mismatch", format!("ring::center(nside {}, {}) = {:?}, model {:?} ({:.3e} rad apart)", c.nside, h, sc, ms, d))));
  }
  // hash(center(h)) == h
  let hh = match catch(|| ring::hash(c.nside, sc.0, sc.1)) {
    Ok(v) => v,
    Err(p) => return Err(f(Violation::new("hash_of_center", "panic", format!("ring::hash({}, center({})) panicked: {}", c.nside, h, p)))),
  };
  if hh != h {
    return Err(f(Violation::new("hash_of_center", "mismatch", format!("nside {}: hash(center({})) = {}", c.nside, h, hh))));
  }
  // ordering clause on the crate's own output: the next cell h + 1 is further east in the same ring,
  // or starts the next ring at a strictly lower latitude
  if h + 1 < 12 * (c.nside as u64) * (c.nside as u64) {
    if let Ok(nx) = catch(|| ring::center(c.nside, h + 1)) {
      let (_, yn) = lattice::center_of_ring_index(n, h + 1);
      let ok = if yn == yc { (nx.1 - sc.1).abs() <= 8e-16 && nx.0 > sc.0 } else { nx.1 < sc.1 };
      if !ok {
        return Err(f(Violation::new("order", "not_ring_order", format!("nside {}: centres of cells {} and {} are {:?} then {:?} ({})", c.nside, h, h + 1, sc, nx, if yn == yc { "same ring: equal latitude, increasing longitude expected" } else { "next ring: lower latitude expected" }))));
      }
    }
  }
  // vertices
  let vs = match catch(|| ring::vertices(c.nside, h)) {
    Ok(v) => v,
    Err(p) => return Err(f(Violation::new("vertices", "panic", format!("ring::vertices({}, {}) panicked: {}", c.nside, h, p)))),
  };
  let hw = 1.0 / n as f64;
  let mv = [geom::unproj_ref(mx, my - hw), geom::unproj_ref(mx + hw, my), geom::unproj_ref(mx, my + hw), geom::unproj_ref(mx - hw, my)];
  for k in 0..4 {
    let d = geom::ang_dist(vs[k].0, vs[k].1, mv[k].0, mv[k].1);
    if !(d <= 1e-14) {
      return Err(f(Violation::new("vertices", "mismatch", format!("nside {}: vertex {} of cell {} is {:?}, model {:?} ({:.3e} rad apart)", c.nside, ["S", "E", "N", "W"][k], h, vs[k], mv[k], d))));
    }
  }
  Ok(())
}

pub fn check_pos(c: &PosCase, rec: &mut Rec) -> Result<(), Violation> {
  let n = c.nside as i64;
  let (lon, lat) = (c.pos.lon, c.pos.lat);
  rec.eval();
  rec.class(&c.pos.class);
  let near = geom::dist_to_border(n, lon, lat) < (2.0f64).powi(-40);
  if near {
    rec.class("near_border");
  }
  if !is_pow2(c.nside) || c.pos.is_special() || near {
    rec.nontrivial(fp_of(&(c.nside, lon.to_bits(), lat.to_bits())));
  }
  rec.class(if is_pow2(c.nside) { "nside_pow2" } else { "nside_other" });
  rec.sample(|| json!(c));
  let f = |v: Violation| super::c01::facts(v, 0, lon, lat).fact("nside", c.nside as f64);
  let nh = 12u64 * c.nside as u64 * c.nside as u64;
  let h = match catch(|| ring::hash(c.nside, lon, lat)) {
    Ok(v) => v,
    Err(p) => return Err(f(Violation::new("hash_total", "panic", format!("ring::hash({}, {:e}, {:e}) panicked: {}", c.nside, lon, lat, p)))),
  };
  if h >= nh {
    return Err(f(Violation::new("hash_range", "out_of_range", format!("ring::hash({}, {:e}, {:e}) = {} >= {}", c.nside, lon, lat, h, nh))));
  }
  let (xc, yc) = lattice::center_of_ring_index(n, h);
  let cell = lattice::cell_from_center(n, xc, yc).ok_or_else(|| Violation::new("harness", "model_error", "no cell".into()))?;
  let out = geom::outside_by(n, cell, lon, lat);
  let tau = geom::tau(lon);
  rec.metric_max("outside_by_over_tau", out / tau);
  if !(out <= tau) {
    return Err(f(Violation::new(
      "hash_contains",
      "not_contained",
      format!("ring::hash(nside {}, {:e}, {:e}) = {} (ring {}, centre {:?}/{}): the position is {:.3e} cell half-diagonals outside that cell", c.nside, lon, lat, h, 2 * n - 1 - yc, (xc, yc), n, out * n as f64),
    )
    .fact("outside_cells", out * n as f64)));
  }
  // hash_with_dxdy
  let (h2, dx, dy) = match catch(|| ring::hash_with_dxdy(c.nside, lon, lat)) {
    Ok(v) => v,
    Err(p) => return Err(f(Violation::new("dxdy_total", "panic", format!("ring::hash_with_dxdy({}, {:e}, {:e}) panicked: {}", c.nside, lon, lat, p)))),
  };
  if h2 != h {
    return Err(f(Violation::new("dxdy_hash", "mismatch", format!("hash_with_dxdy gives cell {} but hash gives {}", h2, h))));
  }
  // offsets carry the rounding of the plane coordinates (ulp(8) = 2^-50) multiplied by nside
  let otol = 1e-9 + (2.0f64).powi(-50) * n as f64;
  if !(dx.is_finite() && dy.is_finite() && dx >= -otol && dx <= 1.0 + otol && dy >= -otol && dy <= 1.0 + otol) {
    return Err(f(Violation::new("dxdy_range", "out_of_range", format!("ring::hash_with_dxdy({}, {:e}, {:e}) = ({}, {:e}, {:e})", c.nside, lon, lat, h2, dx, dy))));
  }
  if dx >= 0.0 && dx < 1.0 && dy >= 0.0 && dy < 1.0 {
    let p = match catch(|| ring::sph_coo(c.nside, h2, dx, dy)) {
      Ok(v) => v,
      Err(p) => return Err(f(Violation::new("sph_coo", "panic", format!("ring::sph_coo({}, {}, {:e}, {:e}) panicked: {}", c.nside, h2, dx, dy, p)))),
    };
    let d = geom::ang_dist(lon, lat, p.0, p.1);
    let tol = 1e-13 * (lon.abs() / geom::TWO_PI).max(1.0);
    rec.metric_max("sph_coo_err_over_tol", d / tol);
    if !(d <= tol) {
      return Err(f(Violation::new("sph_coo_inverts", "too_far", format!("nside {}: sph_coo(hash_with_dxdy({:e}, {:e}) = ({}, {:e}, {:e})) = {:?}, {:.3e} rad away", c.nside, lon, lat, h2, dx, dy, p, d))));
    }
  } else {
    rec.class("offset_eq_1");
  }
  Ok(())
}

pub fn check_bad(c: &Bad, rec: &mut Rec) -> Result<(), Violation> {
  rec.eval();
  rec.nontrivial(fp_of(&(c.nside, c.h, c.lat.to_bits())));
  rec.sample(|| json!(c));
  let f = |v: Violation| v.fact("nside", c.nside as f64).fact("h", c.h as f64);
  if catch(|| ring::center(c.nside, c.h)).is_ok() {
    return Err(f(Violation::new("rejects_hash", "no_panic", format!("ring::center({}, {}) did not panic", c.nside, c.h))));
  }
  if catch(|| ring::center_of_projected_cell(c.nside, c.h)).is_ok() {
    return Err(f(Violation::new("rejects_hash", "no_panic", format!("ring::center_of_projected_cell({}, {}) did not panic", c.nside, c.h))));
  }
  if catch(|| ring::vertices(c.nside, c.h)).is_ok() {
    return Err(f(Violation::new("rejects_hash", "no_panic", format!("ring::vertices({}, {}) did not panic", c.nside, c.h))));
  }
  if catch(|| ring::sph_coo(c.nside, c.h, 0.5, 0.5)).is_ok() {
    return Err(f(Violation::new("rejects_hash", "no_panic", format!("ring::sph_coo({}, {}, .5, .5) did not panic", c.nside, c.h))));
  }
  if let Ok(h) = catch(|| ring::hash(c.nside, c.lon, c.lat)) {
    return Err(f(Violation::new("rejects_lat", "no_panic", format!("ring::hash({}, {:e}, lat={:e}) returned {}", c.nside, c.lon, c.lat, h))));
  }
  if let Ok(h) = catch(|| ring::hash_with_dxdy(c.nside, c.lon, c.lat)) {
    return Err(f(Violation::new("rejects_lat", "no_panic", format!("ring::hash_with_dxdy({}, {:e}, lat={:e}) returned {:?}", c.nside, c.lon, c.lat, h))));
  }
  Ok(())
}

const PRIMES: [u32; 12] = [3, 5, 7, 11, 13, 97, 101, 997, 65537, 1000003, 94906267, 536870909];

pub fn nside() -> BoxedStrategy<u32> {
  prop_oneof![
    3 => 1u32..=64,
    2 => prop::sample::select(PRIMES.to_vec()),
    2 => (0u32..=29).prop_map(|k| 1u32 << k),
    2 => (1u32..=29, any::<bool>()).prop_map(|(k, up)| if up { ((1u32 << k) + 1).min(1 << 29) } else { ((1u32 << k) - 1).max(1) }),
    2 => 65u32..100_000,
    2 => (94_906_200u32..94_906_300),
    // the smallest nside for which 1 + 2 h exceeds 2^53 inside a polar cap (float sqrt of the ring index)
    1 => (47_453_100u32..47_453_200),
    2 => ((1u32 << 29) - 64..=(1u32 << 29)),
    2 => 1u32..=(1u32 << 29),
  ]
  .boxed()
}

fn strat_cell() -> BoxedStrategy<CellCase> {
  nside()
    .prop_flat_map(|ns| {
      let n = ns as i64;
      let ring = prop_oneof![
        3 => (0i64..64).prop_map(move |k| k.min(4 * n - 2)),
        3 => (-64i64..=64).prop_map(move |k| (n - 1 + k).max(0).min(4 * n - 2)),
        2 => (0.0f64..1.0).prop_map(move |u| ((n as f64).powf(u) as i64 - 1).max(0).min(4 * n - 2)),
        1 => Just(n - 1),
        1 => Just(3 * n - 1),
        1 => Just(2 * n - 1),
        2 => (0i64..(4 * n - 1)),
        1 => (-64i64..=64).prop_map(move |k| (47_453_132 + k).max(0).min(n - 1)),
      ];
      (ring, any::<bool>(), 0u8..9, 0.0f64..1.0).prop_map(move |(ir, south, which, u)| {
        let ir = if south { 4 * n - 2 - ir } else { ir };
        let first = lattice::cells_before_ring(n, ir) as u64;
        let len = lattice::ring_len(n, ir) as u64;
        let (k, class) = match which {
          0 => (0, "first_in_ring"),
          1 => (1.min(len - 1), "second_in_ring"),
          2 => (len - 1, "last_in_ring"),
          3 => (len / 4, "quadrant_start"),
          4 => (len / 2, "quadrant_start"),
          5 => (3 * (len / 4), "quadrant_start"),
          6 => ((len / 4).max(1) - 1, "quadrant_end"),
          7 => ((1 + (u * 3.0) as u64).min(3) * (len / 4) - 1.min(len / 4), "quadrant_end"),
          _ => (((u * len as f64) as u64).min(len - 1), "random_in_ring"),
        };
        CellCase { nside: ns, h: first + k, class: class.to_string() }
      })
    })
    .boxed()
}

/// positions on the lattice of the very nside under test: centre / vertices of a cell chosen by
/// ring-boundary class, nudged by 0..2 ulps
fn strat_own_lattice() -> BoxedStrategy<PosCase> {
  (strat_cell(), 0usize..9, -2i32..=2, -2i32..=2, (0.0f64..1.0, 1.0f64..15.0, any::<bool>()))
    .prop_map(|(c, which, n1, n2, (t, u, outward))| {
      let n = c.nside as i64;
      let (xc, yc) = lattice::center_of_ring_index(n, c.h);
      let (xc, yc) = (xc as f64, yc as f64);
      let (x, y, class) = match which {
        0 => (xc, yc, "own_lattice"),
        1 => (xc, yc - 1.0, "own_lattice"),
        2 => (xc + 1.0, yc, "own_lattice"),
        3 => (xc, yc + 1.0, "own_lattice"),
        4 => (xc - 1.0, yc, "own_lattice"),
        // a point of one of the four edges, moved towards the centre (or away from it) by 10^-u of
        // the way: every distance to a cell border between the ulp and the cell size
        k => {
          let (ex, ey) = match k {
            5 => (xc + t, yc - 1.0 + t),
            6 => (xc + 1.0 - t, yc + t),
            7 => (xc - t, yc + 1.0 - t),
            _ => (xc - 1.0 + t, yc - t),
          };
          let d = (10.0f64).powf(-u) * if outward { -1.0 } else { 1.0 };
          (ex + d * (xc - ex), ey + d * (yc - ey), "own_edge_log_distance")
        }
      };
      let (lon, la) = geom::unproj_ref(x / n as f64, (y / n as f64).max(-2.0).min(2.0));
      let (n1, n2) = if which >= 5 { (0, 0) } else { (n1, n2) };
      PosCase { nside: c.nside, pos: Pos::new(geom::nudge(lon, n1), geom::nudge(la, n2), class) }
    })
    .boxed()
}

fn strat_pos() -> BoxedStrategy<PosCase> {
  prop_oneof![
    3 => (nside(), gens::position()).prop_map(|(nside, pos)| PosCase { nside, pos }),
    2 => strat_own_lattice(),
  ]
  .boxed()
}

fn strat_bad() -> BoxedStrategy<Bad> {
  (nside(), gens::invalid_hash_parts(), -7.0f64..7.0, gens::invalid_lat())
    .prop_map(|(nside, (how, a, b), lon, lat)| {
      let nh = 12 * nside as u64 * nside as u64;
      Bad { nside, h: gens::make_invalid_hash(nh, 0, how, a, b), lon, lat }
    })
    .boxed()
}

/// all cells of all nside in 1..=max: index -> (nside, h)
fn small_index(max: u32) -> (Vec<u64>, u64) {
  let mut cum = vec![0u64];
  for ns in 1..=max as u64 {
    cum.push(cum.last().unwrap() + 12 * ns * ns);
  }
  let tot = *cum.last().unwrap();
  (cum, tot)
}

pub fn run(ctx: &Ctx, rep: &mut Report) {
  let max = ctx.tier.pick(64u32, 300u32);
  let (cum, tot) = small_index(max);
  ctx.run_enum(
    rep,
    &format!("all_cells_nside_1_to_{}", max),
    tot,
    |idx| {
      let k = match cum.binary_search(&idx) {
        Ok(k) => k,
        Err(k) => k - 1,
      };
      CellCase { nside: k as u32 + 1, h: idx - cum[k], class: "enumerated".into() }
    },
    check_cell,
  );
  let f = if ctx.profile == "release" { 1 } else { 4 };
  ctx.run_random(rep, "cells", strat_cell, ctx.tier.pick(2_000_000, 100_000_000) / f, check_cell);
  ctx.run_random(rep, "positions", strat_pos, ctx.tier.pick(6_000_000, 300_000_000) / f, check_pos);
  ctx.run_random(rep, "rejections", strat_bad, ctx.tier.pick(40_000, 1_000_000), check_bad);
}

pub fn replay(ctx: &Ctx, rep: &mut Report, section: &str, case: &Value) -> Result<(), String> {
  match section {
    "positions" => ctx.run_one(rep, section, &super::de::<PosCase>(case)?, check_pos),
    "rejections" => ctx.run_one(rep, section, &super::de::<Bad>(case)?, check_bad),
    _ => ctx.run_one(rep, section, &super::de::<CellCase>(case)?, check_cell),
  }
  Ok(())
}
