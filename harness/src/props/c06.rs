//! C06 -- Cone coverage flags are truthful and the coverage is tight.

use super::bmoc_common as bc;
use super::c05::{facts, run_cone};
use super::cone_common::{self as cc, Cone};
use crate::engine::*;
use crate::model::bmoc as mb;
use crate::model::geom;
use crate::model::lattice::Cell;
use serde_json::{json, Value};

pub fn meta() -> PropMeta {
  PropMeta {
    id: "C06",
    rule: "cases = the cones of C05 (same generator); for every returned cell: depth-d centre within r + 2*Dmax(d) + 1e-12 of the cone centre (Dmax computed by the model); for every cell flagged full: its 4 vertices and 8 points per edge (model) within r + 1e-12; r >= pi => exactly the 12 full base cells; no four full siblings; non-trivial = BMOC with at least one full and one partial cell; distinct by (depth, delta, centre bits, radius bits)",
    assumptions: vec!["cell boundary points from the reference inverse projection; Dmax(d) enumerated over base cells 0 and 4 (the others are rotations / mirror images) for d <= 8, Dmax(8)*2^(8-d)*1.01 beyond".into()],
  }
}

pub fn check(c: &Cone, rec: &mut Rec) -> Result<(), Violation> {
  rec.eval();
  let d = c.depth;
  rec.class(&format!("radius:{}", c.radius_class));
  rec.class(if c.delta == 0 { "approx" } else { "custom" });
  rec.sample(|| json!({"depth": d, "delta": c.delta, "lon": c.lon, "lat": c.lat, "radius": c.radius, "radius_class": c.radius_class}));
  let f = |v: Violation| facts(v, c);
  let b = match run_cone(c) {
    Ok(b) => b,
    // totality is judged by C05, except for the outcome that C06 itself promises: r >= pi => whole sky
    Err(p) if c.radius >= std::f64::consts::PI => {
      return Err(f(Violation::new("all_sky", "panic", format!("cone coverage (depth {}, delta {}, centre ({:e}, {:e}), r {:e} >= pi) panicked instead of returning the 12 full base cells: {}", d, c.delta, c.lon, c.lat, c.radius, p))));
    }
    Err(_) => return Ok(()),
  };
  let cells = bc::model_cells("cone_wf", "cone coverage", &b).map_err(|v| f(v))?;
  let n_full = cells.iter().filter(|x| x.full).count();
  if n_full > 0 && n_full < cells.len() {
    rec.nontrivial(fp_of(&(d, c.delta, c.lon.to_bits(), c.lat.to_bits(), c.radius.to_bits())));
    rec.class("full_and_partial");
  }
  if c.radius >= std::f64::consts::PI {
    let ok = cells.len() == 12 && cells.iter().enumerate().all(|(k, x)| x.depth == 0 && x.hash == k as u64 && x.full);
    if !ok {
      return Err(f(Violation::new("all_sky", "not_12_full_base_cells", format!("radius {:e} >= pi but the result is {:?}", c.radius, &cells[..cells.len().min(16)]))));
    }
    return Ok(());
  }
  if mb::has_four_full_siblings(&cells) {
    return Err(f(Violation::new("packed", "four_full_siblings", format!("cone (depth {}, delta {}, centre ({:e}, {:e}), r {:e}) returns four full sibling cells", d, c.delta, c.lon, c.lat, c.radius))));
  }
  for x in &cells {
    let n = 1i64 << x.depth;
    let (i, j) = crate::model::lattice::deinterleave(if x.depth == 0 { 0 } else { x.hash & ((1u64 << (2 * x.depth as u32)) - 1) });
    let cell = Cell { b: (x.hash >> (2 * x.depth as u32)) as u8, i, j };
    let (cl, cb) = geom::cell_center_sphere(n, cell);
    let dist = geom::ang_dist(c.lon, c.lat, cl, cb);
    let lim = c.radius + 2.0 * geom::dmax(x.depth) + 1e-12;
    rec.metric_max("centre_dist_over_limit", dist / lim);
    if !(dist <= lim) {
      return Err(f(Violation::new(
        "tight",
        "cell_too_far",
        format!("cone (depth {}, delta {}, centre ({:e}, {:e}), r {:e}): reported cell {}/{} has its centre {:e} rad from the cone centre, more than r + 2*Dmax({}) = {:e}", d, c.delta, c.lon, c.lat, c.radius, x.depth, x.hash, dist, x.depth, lim),
      )));
    }
    if x.full {
      let mut worst = 0.0f64;
      let mut wp = (0.0, 0.0);
      for (l, bb) in geom::cell_boundary_sphere(n, cell, 8) {
        let dd = geom::ang_dist(c.lon, c.lat, l, bb);
        if dd > worst {
          worst = dd;
          wp = (l, bb);
        }
      }
      rec.metric_max("full_cell_excess_rad", worst - c.radius);
      if !(worst <= c.radius + 1e-12) {
        return Err(f(Violation::new(
          "full_flag",
          "not_inside",
          format!("cone (depth {}, delta {}, centre ({:e}, {:e}), r {:e}): cell {}/{} is flagged fully covered but its border point ({:e}, {:e}) is {:e} rad from the centre ({:e} outside)", d, c.delta, c.lon, c.lat, c.radius, x.depth, x.hash, wp.0, wp.1, worst, worst - c.radius),
        )
        .fact("excess", worst - c.radius)
        .fact("cell_depth", x.depth as f64)));
      }
    }
  }
  Ok(())
}

pub fn run(ctx: &Ctx, rep: &mut Report) {
  let f = if ctx.profile == "release" { 1 } else { 4 };
  ctx.run_random(rep, "cones", cc::cone, ctx.tier.pick(100_000, 5_000_000) / f, check);
}

pub fn replay(ctx: &Ctx, rep: &mut Report, section: &str, case: &Value) -> Result<(), String> {
  ctx.run_one(rep, section, &super::de::<Cone>(case)?, check);
  Ok(())
}
