//! C04 -- Neighbours are exactly the geometrically adjacent cells, correctly labelled.

use crate::engine::*;
use crate::gens;
use crate::model::lattice::{self, Cell, C, WIND_NAMES};
use crate::sut;
use cdshealpix::nested;
use proptest::prelude::*;
use serde::{Deserialize, Serialize};
use serde_json::{json, Value};

#[derive(Clone, Debug, Serialize, Deserialize)]
pub struct Case {
  pub depth: u8,
  pub cell: Cell,
}

#[derive(Clone, Debug, Serialize, Deserialize)]
pub struct Bad {
  pub depth: u8,
  pub hash: u64,
}

pub fn meta() -> PropMeta {
  PropMeta {
    id: "C04",
    rule: "all cells of depth 0..=7 (quick) / 0..=10 (thorough) enumerated, plus generated (depth 0..=29, cell) with cells drawn by class (corners / borders / one step inside the borders of each base cell, uniform); non-trivial = cell on a base-cell border (i or j in {0, nside-1}), where the seam tables are used; distinct by (depth, cell)",
    assumptions: vec!["reference neighbour map derived from the integer lattice model (cells sharing lattice vertices under the gluing rules), no table".into()],
  }
}

fn on_border(depth: u8, c: &Cell) -> bool {
  let m = (1u32 << depth) - 1;
  c.i == 0 || c.j == 0 || c.i == m || c.j == m
}

pub fn check(c: &Case, rec: &mut Rec) -> Result<(), Violation> {
  let d = c.depth;
  let n = 1i64 << d;
  let h = lattice::nested_hash(d, c.cell);
  rec.eval();
  let border = on_border(d, &c.cell);
  rec.class(if border { "base_cell_border" } else { "inner" });
  if border {
    rec.nontrivial(fp_of(&(d, h)));
  }
  rec.sample(|| json!(c));
  let f = |v: Violation| v.fact("depth", d as f64).fact("hash", h as f64).fact("border", border as u8 as f64);
  let model = lattice::neighbours(n, c.cell).map_err(|e| Violation::new("harness", "model_error", e.0))?;
  let want: Vec<Option<u64>> = model.iter().map(|o| o.map(|c| lattice::nested_hash(d, c))).collect();
  for include_center in [false, true] {
    let got = match catch(|| sut::neighbours_arr(d, h, include_center)) {
      Ok(g) => g,
      Err(p) => return Err(f(Violation::new("neighbours_total", "panic", format!("neighbours({}, {}, {}) panicked: {}", d, h, include_center, p)))),
    };
    for dir in 0..9 {
      let w = if dir == C { if include_center { Some(h) } else { None } } else { want[dir] };
      if got[dir] != w {
        return Err(f(Violation::new(
          "neighbours_map",
          "mismatch",
          format!("neighbours(depth {}, cell {} = {:?}, include_center={}) has {:?} under {}, the lattice model says {:?}", d, h, c.cell, include_center, got[dir], WIND_NAMES[dir], w),
        )
        .fact("dir", dir as f64)));
      }
    }
    let cnt = got.iter().enumerate().filter(|(k, o)| *k != C && o.is_some()).count();
    let ok = if d == 0 { cnt == 6 } else { cnt == 8 || cnt == 7 };
    if !ok {
      return Err(f(Violation::new("neighbours_count", "bad_count", format!("cell {} of depth {} has {} neighbours", h, d, cnt))));
    }
    // symmetry, with the crate's own answers
    if !include_center {
      for dir in 0..9 {
        if let Some(o) = got[dir] {
          let back = match catch(|| sut::neighbours_arr(d, o, false)) {
            Ok(g) => g,
            Err(p) => return Err(f(Violation::new("neighbours_total", "panic", format!("neighbours({}, {}) panicked: {}", d, o, p)))),
          };
          if !back.iter().any(|x| *x == Some(h)) {
            return Err(f(Violation::new("neighbours_symmetry", "asymmetric", format!("depth {}: {} lists {} ({}) but {} does not list {}", d, h, o, WIND_NAMES[dir], o, h))));
          }
        }
      }
    }
  }
  // neighbour(h, dir) agrees with neighbours(h)
  for dir in 0..9 {
    let got = match catch(|| nested::get_or_create(d).neighbour(h, sut::main_wind(dir))) {
      Ok(g) => g,
      Err(p) => return Err(f(Violation::new("neighbour_total", "panic", format!("neighbour({}, {}) at depth {} panicked: {}", h, WIND_NAMES[dir], d, p)).fact("dir", dir as f64))),
    };
    let w = if dir == C { Some(h) } else { want[dir] };
    if got != w {
      return Err(f(Violation::new("neighbour_single", "mismatch", format!("neighbour(depth {}, cell {}, {}) = {:?}, expected {:?}", d, h, WIND_NAMES[dir], got, w)).fact("dir", dir as f64)));
    }
  }
  Ok(())
}

pub fn check_bad(c: &Bad, rec: &mut Rec) -> Result<(), Violation> {
  rec.eval();
  rec.nontrivial(fp_of(&(c.depth, c.hash)));
  rec.sample(|| json!(c));
  let f = |v: Violation| v.fact("depth", c.depth as f64).fact("hash", c.hash as f64);
  if let Ok(m) = catch(|| sut::neighbours_arr(c.depth, c.hash, false)) {
    return Err(f(Violation::new("neighbours_rejects", "no_panic", format!("neighbours(depth {}, out-of-range cell {}) returned {:?}", c.depth, c.hash, m))));
  }
  for dir in 0..9 {
    if let Ok(m) = catch(|| nested::get_or_create(c.depth).neighbour(c.hash, sut::main_wind(dir))) {
      return Err(f(Violation::new("neighbour_rejects", "no_panic", format!("neighbour(depth {}, out-of-range cell {}, {}) returned {:?} instead of panicking", c.depth, c.hash, WIND_NAMES[dir], m)).fact("dir", dir as f64)));
    }
  }
  Ok(())
}

fn strat() -> BoxedStrategy<Case> {
  gens::depth_and_cell().prop_map(|(depth, cell)| Case { depth, cell }).boxed()
}

fn strat_bad() -> BoxedStrategy<Bad> {
  (gens::depth(), gens::invalid_hash_parts())
    .prop_map(|(depth, (how, a, b))| Bad { depth, hash: gens::make_invalid_hash(lattice::n_hash(depth), 2 * depth as u32, how, a, b) })
    .boxed()
}

pub fn run(ctx: &Ctx, rep: &mut Report) {
  let maxd = ctx.tier.pick(7u8, 10u8);
  for d in 0..=maxd {
    ctx.run_enum(rep, &format!("all_cells_d{}", d), lattice::n_hash(d), |h| Case { depth: d, cell: lattice::nested_decode(d, h) }, check);
  }
  ctx.run_random(rep, "sampled", strat, ctx.tier.pick(1_500_000, 40_000_000), check);
  ctx.run_random(rep, "out_of_range", strat_bad, ctx.tier.pick(20_000, 500_000), check_bad);
}

pub fn replay(ctx: &Ctx, rep: &mut Report, section: &str, case: &Value) -> Result<(), String> {
  if section == "out_of_range" {
    ctx.run_one(rep, section, &super::de::<Bad>(case)?, check_bad);
  } else {
    ctx.run_one(rep, section, &super::de::<Case>(case)?, check);
  }
  Ok(())
}
