//! C14 -- Internal/external edges of a cell are exactly its deeper-depth border rings.

use crate::engine::*;
use crate::gens;
use crate::model::lattice::{self, Cell, E, N, NE, NW, S, SE, SW, W};
use crate::sut;
use cdshealpix::compass_point::Ordinal;
use cdshealpix::nested::{self, Layer};
use proptest::prelude::*;
use serde::{Deserialize, Serialize};
use serde_json::{json, Value};
use std::collections::BTreeSet;

#[derive(Clone, Debug, Serialize, Deserialize)]
pub struct Case {
  pub depth: u8,
  pub cell: Cell,
  pub delta: u8,
}

pub fn meta() -> PropMeta {
  PropMeta {
    id: "C14",
    rule: "cases = (depth, cell, delta_depth >= 1, depth + delta <= 29): all cells of depth 0..=3 x delta 1..=4 (quick) / depth 0..=4 x delta 1..=6 (thorough) enumerated, plus generated (depth 0..=28, cell by class: base-cell corners / borders / one step inside / uniform, delta 1..=min(14, 29-depth), incl. depth + delta = 29, and one case in 700 with delta 15..=17); delta 11..=29-depth for the four corner sub-cells only (O(1) helpers; the lists would have 4*2^delta cells); non-trivial = cell on a base-cell border (the external edge crosses a seam) or delta >= 3; distinct by (depth, cell, delta)",
    assumptions: vec![
      "delta_depth = 0 is outside the domain (the stated cardinality 4*2^delta - 4 is 0 and the crate's masks shift by 64)".into(),
      "reference: descendants and deep-level neighbour map of the lattice model; external corner(dir) = deep neighbour towards dir of the corner descendant; external side(ord) = deep neighbours towards ord of the descendants on that side".into(),
    ],
  }
}

fn ordinal(k: usize) -> Ordinal {
  match k {
    SE => Ordinal::SE,
    SW => Ordinal::SW,
    NE => Ordinal::NE,
    _ => Ordinal::NW,
  }
}

fn strictly_increasing(v: &[u64]) -> bool {
  v.windows(2).all(|w| w[0] < w[1])
}

pub fn check(c: &Case, rec: &mut Rec) -> Result<(), Violation> {
  let (d, dl) = (c.depth, c.delta);
  let dd = d + dl;
  let n = 1i64 << d;
  let nn = 1i64 << dd;
  let h = lattice::nested_hash(d, c.cell);
  rec.eval();
  let m = (1u32 << d) - 1;
  let on_border = c.cell.i == 0 || c.cell.j == 0 || c.cell.i == m || c.cell.j == m;
  rec.class(if on_border { "base_cell_border" } else { "inner" });
  rec.class(&format!("delta{}", dl.min(7)));
  if on_border || dl >= 3 {
    rec.nontrivial(fp_of(&(d, h, dl)));
  }
  rec.sample(|| json!(c));
  let f = |v: Violation| v.fact("depth", d as f64).fact("hash", h as f64).fact("delta", dl as f64).fact("deep_depth", dd as f64);
  let am1 = (1u32 << dl) - 1;
  let desc = |a: u32, b: u32| lattice::nested_hash(dd, lattice::descendant(c.cell, dl, a, b));
  // ---- internal edge
  let mut walk: Vec<(u32, u32)> = Vec::with_capacity(4 * am1 as usize);
  for k in 0..am1 {
    walk.push((k, 0));
  }
  for k in 0..am1 {
    walk.push((am1, k));
  }
  for k in 0..am1 {
    walk.push((am1 - k, am1));
  }
  for k in 0..am1 {
    walk.push((0, am1 - k));
  }
  let model_set: BTreeSet<u64> = walk.iter().map(|&(a, b)| desc(a, b)).collect();
  let ie = match catch(|| Layer::internal_edge(h, dl)) {
    Ok(v) => v,
    Err(p) => return Err(f(Violation::new("internal_edge", "panic", format!("Layer::internal_edge({}, {}) panicked: {}", h, dl, p)))),
  };
  let ie_set: BTreeSet<u64> = ie.iter().copied().collect();
  if ie.len() != 4 * am1 as usize || ie_set.len() != ie.len() {
    return Err(f(Violation::new("internal_edge", "wrong_count", format!("internal_edge(depth {} cell {}, delta {}) has {} cells ({} distinct), expected {}", d, h, dl, ie.len(), ie_set.len(), 4 * am1))));
  }
  if ie_set != model_set {
    let extra: Vec<u64> = ie_set.difference(&model_set).take(4).copied().collect();
    let missing: Vec<u64> = model_set.difference(&ie_set).take(4).copied().collect();
    return Err(f(Violation::new("internal_edge", "wrong_set", format!("internal_edge(depth {} cell {}, delta {}): not the border descendants (e.g. extra {:?}, missing {:?})", d, h, dl, extra, missing))));
  }
  // closed walk from the south corner through the east corner, consecutive cells adjacent
  if ie[0] != desc(0, 0) {
    return Err(f(Violation::new("internal_edge", "wrong_start", format!("internal_edge(depth {} cell {}, delta {}) starts with {} instead of the south corner {}", d, h, dl, ie[0], desc(0, 0)))));
  }
  let pos_of = |x: u64| ie.iter().position(|y| *y == x).unwrap();
  let (pe, pn, pw) = (pos_of(desc(am1, 0)), pos_of(desc(am1, am1)), pos_of(desc(0, am1)));
  if !(pe <= pn && pn <= pw) || (am1 > 1 && !(0 < pe && pe < pn && pn < pw)) {
    return Err(f(Violation::new("internal_edge", "wrong_order", format!("internal_edge(depth {} cell {}, delta {}): corners S,E,N,W appear at positions 0,{},{},{}", d, h, dl, pe, pn, pw))));
  }
  for k in 0..ie.len() {
    let a = lattice::nested_decode(dd, ie[k]);
    let b = lattice::nested_decode(dd, ie[(k + 1) % ie.len()]);
    let dist = (a.i as i64 - b.i as i64).abs() + (a.j as i64 - b.j as i64).abs();
    if dist != 1 && ie.len() > 1 {
      return Err(f(Violation::new("internal_edge", "not_a_walk", format!("internal_edge(depth {} cell {}, delta {}): consecutive cells {} and {} are not adjacent", d, h, dl, ie[k], ie[(k + 1) % ie.len()]))));
    }
  }
  // sorted variant
  let ies = match catch(|| Layer::internal_edge_sorted(h, dl)) {
    Ok(v) => v,
    Err(p) => return Err(f(Violation::new("internal_edge_sorted", "panic", format!("Layer::internal_edge_sorted({}, {}) panicked: {}", h, dl, p)))),
  };
  let ies_set: BTreeSet<u64> = ies.iter().copied().collect();
  if ies_set != model_set || ies.len() != model_set.len() || !strictly_increasing(&ies) {
    return Err(f(Violation::new(
      "internal_edge_sorted",
      "wrong",
      format!("internal_edge_sorted(depth {} cell {}, delta {}) = {:?}{} is not the sorted internal edge", d, h, dl, &ies[..ies.len().min(12)], if ies.len() > 12 { ".." } else { "" }),
    )));
  }
  // free-function wrappers
  for (name, r) in [("nested::internal_edge", catch(|| nested::internal_edge(d, h, dl))), ("nested::internal_edge_sorted", catch(|| nested::internal_edge_sorted(d, h, dl)))] {
    match r {
      Ok(v) => {
        let s: BTreeSet<u64> = v.iter().copied().collect();
        if s != model_set || v.len() != model_set.len() {
          return Err(f(Violation::new("internal_edge_wrappers", "wrong_set", format!("{}({}, {}, {}) is not the internal edge", name, d, h, dl))));
        }
      }
      Err(p) => return Err(f(Violation::new("internal_edge_wrappers", "rejects_valid", format!("{}({}, {}, {}) panicked although depth + delta_depth = {} <= 29: {}", name, d, h, dl, dd, p)))),
    }
  }
  // ---- corners and sides helpers
  let corner_desc = [desc(0, 0), desc(am1, 0), desc(am1, am1), desc(0, am1)]; // S, E, N, W
  for k in 0..4 {
    let got = match catch(|| nested::internal_corner(h, dl, &sut::cardinal(k))) {
      Ok(v) => v,
      Err(p) => return Err(f(Violation::new("internal_corner", "panic", format!("internal_corner({}, {}, {}) panicked: {}", h, dl, k, p)))),
    };
    let direct = match catch(|| match k {
      0 => nested::internal_corner_south(h, dl),
      1 => nested::internal_corner_east(h, dl),
      2 => nested::internal_corner_north(h, dl),
      _ => nested::internal_corner_west(h, dl),
    }) {
      Ok(v) => v,
      Err(p) => return Err(f(Violation::new("internal_corner", "panic", format!("internal_corner_<dir>({}, {}) [{}] panicked: {}", h, dl, k, p)))),
    };
    if got != corner_desc[k] || direct != corner_desc[k] {
      return Err(f(Violation::new("internal_corner", "mismatch", format!("internal_corner(depth {} cell {}, delta {}, {}) = {} / {}, expected {}", d, h, dl, ["S", "E", "N", "W"][k], got, direct, corner_desc[k]))));
    }
  }
  let side_model = |ord: usize| -> Vec<u64> {
    let mut v: Vec<u64> = (0..=am1)
      .map(|k| match ord {
        SE => desc(k, 0),
        SW => desc(0, k),
        NE => desc(am1, k),
        _ => desc(k, am1),
      })
      .collect();
    v.sort_unstable();
    v
  };
  for ord in [SE, SW, NE, NW] {
    let want = side_model(ord);
    let got = match catch(|| nested::internal_edge_part(h, dl, &ordinal(ord))) {
      Ok(v) => v,
      Err(p) => return Err(f(Violation::new("internal_edge_part", "panic", format!("internal_edge_part({}, {}, {}) panicked: {}", h, dl, lattice::WIND_NAMES[ord], p)))),
    };
    let (direct, app, app2) = match catch(|| {
      let direct = match ord {
        SE => nested::internal_edge_southeast(h, dl),
        SW => nested::internal_edge_southwest(h, dl),
        NE => nested::internal_edge_northeast(h, dl),
        _ => nested::internal_edge_northwest(h, dl),
      };
      let mut app = vec![u64::MAX, 7];
      nested::append_internal_edge_part(h, dl, &ordinal(ord), &mut app);
      let mut app2 = vec![3u64];
      match ord {
        SE => nested::append_internal_edge_southeast(h, dl, &mut app2),
        SW => nested::append_internal_edge_southwest(h, dl, &mut app2),
        NE => nested::append_internal_edge_northeast(h, dl, &mut app2),
        _ => nested::append_internal_edge_northwest(h, dl, &mut app2),
      }
      (direct, app, app2)
    }) {
      Ok(v) => v,
      Err(p) => return Err(f(Violation::new("internal_edge_part", "panic", format!("internal_edge_<side> / append_* ({}, {}, {}) panicked: {}", h, dl, lattice::WIND_NAMES[ord], p)))),
    };
    if got.to_vec() != want || direct.to_vec() != want || app[..2] != [u64::MAX, 7] || app[2..] != want[..] || app2[0] != 3 || app2[1..] != want[..] {
      return Err(f(Violation::new(
        "internal_edge_part",
        "mismatch",
        format!("internal_edge_part / append (depth {} cell {}, delta {}, {}): got {:?}.., expected the sorted side {:?}..", d, h, dl, lattice::WIND_NAMES[ord], &got[..got.len().min(6)], &want[..want.len().min(6)]),
      )));
    }
  }
  // ---- external edge
  let deep_nb = |a: u32, b: u32| lattice::neighbours(nn, lattice::descendant(c.cell, dl, a, b)).map_err(|e| Violation::new("harness", "model_error", e.0));
  let is_desc = |x: &Cell| x.b == c.cell.b && (x.i >> dl) == c.cell.i && (x.j >> dl) == c.cell.j;
  let mut ext_model: BTreeSet<u64> = BTreeSet::new();
  let mut side_ext: [BTreeSet<u64>; 9] = Default::default();
  let mut corner_ext: [Option<u64>; 9] = [None; 9];
  for &(a, b) in walk.iter() {
    let nb = deep_nb(a, b)?;
    for (dir, o) in nb.iter().enumerate() {
      if dir == lattice::C {
        continue;
      }
      if let Some(o) = o {
        if !is_desc(o) {
          ext_model.insert(lattice::nested_hash(dd, *o));
        }
      }
    }
    // sides: deep neighbour towards the side's direction of the descendants lying on that side
    let hsh = |o: Option<Cell>| o.map(|o| lattice::nested_hash(dd, o));
    if b == 0 {
      if let Some(x) = hsh(nb[SE]) {
        side_ext[SE].insert(x);
      }
    }
    if a == 0 {
      if let Some(x) = hsh(nb[SW]) {
        side_ext[SW].insert(x);
      }
    }
    if a == am1 {
      if let Some(x) = hsh(nb[NE]) {
        side_ext[NE].insert(x);
      }
    }
    if b == am1 {
      if let Some(x) = hsh(nb[NW]) {
        side_ext[NW].insert(x);
      }
    }
    if (a, b) == (0, 0) {
      corner_ext[S] = hsh(nb[S]);
    }
    if (a, b) == (am1, 0) {
      corner_ext[E] = hsh(nb[E]);
    }
    if (a, b) == (am1, am1) {
      corner_ext[N] = hsh(nb[N]);
    }
    if (a, b) == (0, am1) {
      corner_ext[W] = hsh(nb[W]);
    }
  }
  let _ = n;
  let layer = nested::get_or_create(d);
  for sorted in [false, true] {
    let name = if sorted { "external_edge_sorted" } else { "external_edge" };
    let r = if sorted { catch(|| layer.external_edge_sorted(h, dl)) } else { catch(|| layer.external_edge(h, dl)) };
    let v = match r {
      Ok(v) => v,
      Err(p) => return Err(f(Violation::new(name, "panic", format!("{}(depth {} cell {}, delta {}) panicked: {}", name, d, h, dl, p)))),
    };
    let s: BTreeSet<u64> = v.iter().copied().collect();
    if s.len() != v.len() {
      return Err(f(Violation::new(name, "duplicates", format!("{}(depth {} cell {}, delta {}) lists {} cells, {} distinct", name, d, h, dl, v.len(), s.len()))));
    }
    if s != ext_model {
      let extra: Vec<u64> = s.difference(&ext_model).take(4).copied().collect();
      let missing: Vec<u64> = ext_model.difference(&s).take(4).copied().collect();
      return Err(f(Violation::new(name, "wrong_set", format!("{}(depth {} cell {}, delta {}): {} cells vs {} in the model (e.g. extra {:?}, missing {:?})", name, d, h, dl, s.len(), ext_model.len(), extra, missing))));
    }
    if sorted && !strictly_increasing(&v) {
      return Err(f(Violation::new(name, "not_sorted", format!("{}(depth {} cell {}, delta {}) is not increasing: {:?}..", name, d, h, dl, &v[..v.len().min(12)]))));
    }
  }
  let es = match catch(|| layer.external_edge_struct(h, dl)) {
    Ok(v) => v,
    Err(p) => return Err(f(Violation::new("external_edge_struct", "panic", format!("external_edge_struct(depth {} cell {}, delta {}) panicked: {}", d, h, dl, p)))),
  };
  let mut union: BTreeSet<u64> = BTreeSet::new();
  for (k, dir) in [S, E, N, W].iter().enumerate() {
    let got = es.get_corner(&sut::cardinal(k));
    if got != corner_ext[*dir] {
      return Err(f(Violation::new("external_edge_struct", "corner_mismatch", format!("external_edge_struct(depth {} cell {}, delta {}).get_corner({}) = {:?}, model {:?}", d, h, dl, lattice::WIND_NAMES[*dir], got, corner_ext[*dir])).fact("dir", *dir as f64)));
    }
    if let Some(x) = got {
      union.insert(x);
    }
  }
  for ord in [SE, SW, NE, NW] {
    let got = es.get_edge(&ordinal(ord));
    let s: BTreeSet<u64> = got.iter().copied().collect();
    if s.len() != got.len() || s != side_ext[ord] {
      return Err(f(Violation::new(
        "external_edge_struct",
        "side_mismatch",
        format!("external_edge_struct(depth {} cell {}, delta {}).get_edge({}) = {:?}.., model {:?}..", d, h, dl, lattice::WIND_NAMES[ord], &got[..got.len().min(6)], side_ext[ord].iter().take(6).collect::<Vec<_>>()),
      )
      .fact("dir", ord as f64)));
    }
    union.extend(s);
  }
  if union != ext_model {
    return Err(f(Violation::new("external_edge_struct", "union_mismatch", format!("external_edge_struct(depth {} cell {}, delta {}): union of the 8 parts has {} cells, external edge has {}", d, h, dl, union.len(), ext_model.len()))));
  }
  // wrappers of the external functions
  for (name, r) in [
    ("nested::external_edge", catch(|| nested::external_edge(d, h, dl))),
    ("nested::external_edge_sorted", catch(|| nested::external_edge_sorted(d, h, dl))),
  ] {
    match r {
      Ok(v) => {
        let s: BTreeSet<u64> = v.iter().copied().collect();
        if s != ext_model {
          return Err(f(Violation::new("external_edge_wrappers", "wrong_set", format!("{}({}, {}, {}) differs from the Layer method", name, d, h, dl))));
        }
      }
      Err(p) => return Err(f(Violation::new("external_edge_wrappers", "panic", format!("{}({}, {}, {}) panicked: {}", name, d, h, dl, p)))),
    }
  }
  Ok(())
}

/// delta_depth 11..=29 (depth + delta <= 29): the edge lists would have 4 * 2^delta cells, so only
/// the O(1) helpers are checked there -- the four corner sub-cells, through every entry point
/// (the z-order class is selected from delta: LARGE for delta >= 17).
pub fn check_corners(c: &Case, rec: &mut Rec) -> Result<(), Violation> {
  rec.eval();
  let (d, dl) = (c.depth, c.delta);
  let dd = d + dl;
  let h = lattice::nested_hash(d, c.cell);
  rec.class(&format!("delta_{}", if dl >= 17 { "17_29" } else { "11_16" }));
  rec.nontrivial(fp_of(&(d, h, dl)));
  rec.sample(|| json!(c));
  let f = |v: Violation| v.fact("depth", d as f64).fact("hash", h as f64).fact("delta", dl as f64).fact("deep_depth", dd as f64);
  let am1 = ((1u64 << dl) - 1) as u32;
  let desc = |a: u32, b: u32| lattice::nested_hash(dd, lattice::descendant(c.cell, dl, a, b));
  let want = [desc(0, 0), desc(am1, 0), desc(am1, am1), desc(0, am1)]; // S, E, N, W
  for k in 0..4 {
    let got = match catch(|| {
      (
        nested::internal_corner(h, dl, &sut::cardinal(k)),
        match k {
          0 => nested::internal_corner_south(h, dl),
          1 => nested::internal_corner_east(h, dl),
          2 => nested::internal_corner_north(h, dl),
          _ => nested::internal_corner_west(h, dl),
        },
      )
    }) {
      Ok(v) => v,
      Err(p) => return Err(f(Violation::new("internal_corner", "panic", format!("internal_corner(depth {} cell {}, delta {}, {}) panicked: {}", d, h, dl, ["S", "E", "N", "W"][k], p)))),
    };
    if got.0 != want[k] || got.1 != want[k] {
      return Err(f(Violation::new("internal_corner", "mismatch", format!("internal_corner(depth {} cell {}, delta {}, {}) = {} / {}, expected {}", d, h, dl, ["S", "E", "N", "W"][k], got.0, got.1, want[k]))));
    }
  }
  Ok(())
}

fn strat_large_delta() -> BoxedStrategy<Case> {
  (0u8..=18).prop_flat_map(|d| (gens::cell(d), 11u8..=(29 - d)).prop_map(move |(cell, delta)| Case { depth: d, cell, delta })).boxed()
}

fn strat() -> BoxedStrategy<Case> {
  (0u8..=28)
    .prop_flat_map(|d| {
      let maxdl = (29 - d).min(14);
      let hugedl = (29 - d).min(17); // 4 * 2^17 cells: rare (the z-order class and the masks change with delta)
      let dl = prop_oneof![480 => 1u8..=maxdl.min(3), 160 => 1u8..=maxdl.min(6), 40 => 1u8..=maxdl.min(10), 10 => 1u8..=maxdl, 1 => (maxdl.min(15))..=hugedl.max(maxdl.min(15)), 30 => Just(29 - d).prop_map(move |x| x.min(10).max(1)), 10 => Just(29 - d).prop_map(move |x| x.min(14).max(1))];
      (gens::cell(d), dl).prop_map(move |(cell, delta)| Case { depth: d, cell, delta })
    })
    .boxed()
}

/// deep cases: depth + delta = 29 exactly
fn strat_deep() -> BoxedStrategy<Case> {
  prop_oneof![4 => 23u8..=28, 1 => 19u8..=28].prop_flat_map(|d| gens::cell(d).prop_map(move |cell| Case { depth: d, cell, delta: 29 - d })).boxed()
}

pub fn run(ctx: &Ctx, rep: &mut Report) {
  let (maxd, maxdl) = ctx.tier.pick((3u8, 4u8), (4u8, 6u8));
  for d in 0..=maxd {
    for dl in 1..=maxdl {
      ctx.run_enum(rep, &format!("all_d{}_delta{}", d, dl), lattice::n_hash(d), |h| Case { depth: d, cell: lattice::nested_decode(d, h), delta: dl }, check);
    }
  }
  let f = if ctx.profile == "release" { 1 } else { 4 };
  ctx.run_random(rep, "sampled", strat, ctx.tier.pick(40_000, 1_000_000) / f, check);
  ctx.run_random(rep, "depth_plus_delta_29", strat_deep, ctx.tier.pick(4_000, 200_000) / f, check);
  ctx.run_random(rep, "large_delta_corners", strat_large_delta, ctx.tier.pick(300_000, 10_000_000) / f, check_corners);
}

pub fn replay(ctx: &Ctx, rep: &mut Report, section: &str, case: &Value) -> Result<(), String> {
  if section == "large_delta_corners" {
    ctx.run_one(rep, section, &super::de::<Case>(case)?, check_corners);
  } else {
    ctx.run_one(rep, section, &super::de::<Case>(case)?, check);
  }
  Ok(())
}
