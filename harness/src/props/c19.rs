//! C19 -- Bilinear interpolation returns a partition of unity over the right cells.

use crate::engine::*;
use crate::gens::{self, Pos};
use crate::model::geom;
use crate::model::lattice::{self, Cell, C};
use cdshealpix::nested;
use proptest::prelude::*;
use serde::{Deserialize, Serialize};
use serde_json::{json, Value};

#[derive(Clone, Debug, Serialize, Deserialize)]
pub struct Case {
  pub depth: u8,
  pub pos: Pos,
}

pub fn meta() -> PropMeta {
  PropMeta {
    id: "C19",
    rule: "cases = (depth, position): the 5-class position generator x depth, plus positions built from the lattice: the four quadrants (offsets (1/4|3/4, 1/4|3/4) and random) of a cell chosen by class (base-cell corners / borders incl. the 24 cells lacking a S/E/N/W neighbour), and exact cell centres; non-trivial = the cell containing the position is on a base-cell border (the interpolation crosses a seam or meets a missing neighbour); distinct by (depth, lon bits, lat bits)",
    assumptions: vec![
      "weights >= -1e-12, |sum - 1| <= 1e-12; weighted mean of cell-grid centres compared with the model in-base-cell coordinates within 1e-9 + 2^-46*nside (the rounding of a plane coordinate times nside)".into(),
      "'a cell containing the position' = containment by the lattice model with tolerance tau".into(),
    ],
  }
}

pub fn check(c: &Case, rec: &mut Rec) -> Result<(), Violation> {
  let d = c.depth;
  let n = 1i64 << d;
  let (lon, lat) = (c.pos.lon, c.pos.lat);
  rec.eval();
  rec.class(&c.pos.class);
  rec.sample(|| json!(c));
  let f = |v: Violation| super::c01::facts(v, d, lon, lat);
  let res = match catch(|| nested::bilinear_interpolation(d, lon, lat)) {
    Ok(v) => v,
    Err(p) => return Err(f(Violation::new("bilinear_total", "panic", format!("bilinear_interpolation({}, {:e}, {:e}) panicked: {}", d, lon, lat, p)))),
  };
  let nh = lattice::n_hash(d);
  let mut sum = 0.0;
  for (h, w) in res.iter() {
    if *h >= nh || !w.is_finite() {
      return Err(f(Violation::new("bilinear_range", "bad_entry", format!("bilinear_interpolation({}, {:e}, {:e}) = {:?}", d, lon, lat, res))));
    }
    if *w < -1e-12 {
      return Err(f(Violation::new("weights", "negative", format!("bilinear_interpolation({}, {:e}, {:e}) = {:?}: negative weight", d, lon, lat, res))));
    }
    sum += *w;
  }
  rec.metric_max("abs_sum_minus_1", (sum - 1.0).abs());
  if !((sum - 1.0).abs() <= 1e-12) {
    return Err(f(Violation::new("weights", "sum_not_1", format!("bilinear_interpolation({}, {:e}, {:e}) = {:?}: weights sum to {:e}", d, lon, lat, res, sum))));
  }
  // a cell containing the position is among the four, the others are its neighbours
  let tau = geom::tau(lon);
  let mut owner: Option<Cell> = None;
  for (h, _) in res.iter() {
    let cell = lattice::nested_decode(d, *h);
    if geom::outside_by(n, cell, lon, lat) <= tau {
      // prefer the owner for which all others are neighbours
      let nb = lattice::neighbours(n, cell).map_err(|e| Violation::new("harness", "model_error", e.0))?;
      let all_ok = res.iter().all(|(o, _)| nb.iter().any(|x| x.map(|c| lattice::nested_hash(d, c)) == Some(*o)));
      if all_ok {
        owner = Some(cell);
        break;
      } else if owner.is_none() {
        owner = Some(cell);
      }
    }
  }
  let owner = match owner {
    Some(o) => o,
    None => {
      return Err(f(Violation::new("cells", "no_cell_contains_position", format!("bilinear_interpolation({}, {:e}, {:e}) = {:?}: none of the four cells contains the position", d, lon, lat, res))));
    }
  };
  let m = (1u32 << d) - 1;
  let on_border = owner.i == 0 || owner.j == 0 || owner.i == m || owner.j == m;
  if on_border {
    rec.class("owner_on_base_cell_border");
    rec.nontrivial(fp_of(&(d, lon.to_bits(), lat.to_bits())));
  }
  let nb = lattice::neighbours(n, owner).map_err(|e| Violation::new("harness", "model_error", e.0))?;
  let nbh: Vec<Option<u64>> = nb.iter().map(|x| x.map(|c| lattice::nested_hash(d, c))).collect();
  for (h, w) in res.iter() {
    if !nbh.iter().any(|x| *x == Some(*h)) {
      return Err(f(Violation::new(
        "cells",
        "not_a_neighbour",
        format!("bilinear_interpolation({}, {:e}, {:e}) = {:?}: cell {} (weight {:e}) is neither the cell containing the position ({}) nor one of its neighbours {:?}", d, lon, lat, res, h, w, lattice::nested_hash(d, owner), nbh),
      )));
    }
  }
  let oh = lattice::nested_hash(d, owner);
  // in-base-cell coordinates of the position (model)
  let (x0, y0) = lattice::base_center(1, owner.b);
  let mut best = (f64::INFINITY, 0.0, 0.0);
  for (x, y) in geom::images(lon, lat) {
    let dx = geom::dx_cyc(x, x0 as f64);
    let dy = y - y0 as f64;
    let dist = dx.abs() + dy.abs();
    if dist < best.0 {
      best = (dist, dx, dy);
    }
  }
  let ic = (best.1 + best.2 + 1.0) * n as f64 * 0.5;
  let jc = (best.2 + 1.0 - best.1) * n as f64 * 0.5;
  let tol = 1e-9 + (2.0f64).powi(-46) * n as f64;
  // weight 1 at a cell centre
  let fi = ic - owner.i as f64 - 0.5;
  let fj = jc - owner.j as f64 - 0.5;
  if fi.abs() <= 1e-12 + (2.0f64).powi(-50) * n as f64 && fj.abs() <= 1e-12 + (2.0f64).powi(-50) * n as f64 {
    rec.class("at_cell_centre");
    let w: f64 = res.iter().filter(|(h, _)| *h == oh).map(|(_, w)| *w).sum();
    if !((w - 1.0).abs() <= 4.0 * tol) {
      return Err(f(Violation::new("weights", "centre_weight_not_1", format!("bilinear_interpolation({}, {:e}, {:e}) = {:?}: the position is the centre of cell {} but its weight is {:e}", d, lon, lat, res, oh, w))));
    }
  }
  // all four in one base cell: weighted mean of the grid centres is the position
  let cells: Vec<Cell> = res.iter().map(|(h, _)| lattice::nested_decode(d, *h)).collect();
  if cells.iter().all(|c| c.b == owner.b) {
    rec.class("one_base_cell");
    let mi: f64 = res.iter().zip(cells.iter()).map(|((_, w), c)| w * (c.i as f64 + 0.5)).sum();
    let mj: f64 = res.iter().zip(cells.iter()).map(|((_, w), c)| w * (c.j as f64 + 0.5)).sum();
    rec.metric_max("mean_err_over_tol", ((mi - ic).abs().max((mj - jc).abs())) / tol);
    if !((mi - ic).abs() <= tol && (mj - jc).abs() <= tol) {
      return Err(f(Violation::new(
        "interpolation",
        "mean_not_position",
        format!("bilinear_interpolation({}, {:e}, {:e}) = {:?}: weighted mean of the cell centres is ({}, {}) in the cell grid, the position is at ({}, {})", d, lon, lat, res, mi, mj, ic, jc),
      )));
    }
  } else {
    rec.class("several_base_cells");
  }
  // missing corner: the entry standing for it has weight 0
  let quad_dir = match (fi > 0.0, fj > 0.0) {
    (false, false) => lattice::S,
    (true, false) => lattice::E,
    (false, true) => lattice::W,
    (true, true) => lattice::N,
  };
  if fi.abs() > 1e-6 && fj.abs() > 1e-6 && (0.5 - fi.abs()) > 1e-6 && (0.5 - fj.abs()) > 1e-6 && nb[quad_dir].is_none() {
    rec.class("missing_corner_quadrant");
    rec.class(&format!("missing_{}_{}", lattice::WIND_NAMES[quad_dir], if owner.b < 4 { "north_cap" } else if owner.b < 8 { "equatorial" } else { "south_cap" }));
    let has_zero = res.iter().any(|(h, w)| *w == 0.0 && *h == oh);
    if !has_zero {
      return Err(f(Violation::new("missing_corner", "no_zero_weight", format!("bilinear_interpolation({}, {:e}, {:e}) = {:?}: cell {} has no {} neighbour but no entry with weight 0 stands for it", d, lon, lat, res, oh, lattice::WIND_NAMES[quad_dir]))));
    }
    let distinct: std::collections::BTreeSet<u64> = res.iter().map(|(h, _)| *h).collect();
    if distinct.len() != 3 {
      return Err(f(Violation::new("missing_corner", "wrong_cells", format!("bilinear_interpolation({}, {:e}, {:e}) = {:?}: expected exactly three distinct cells next to a three-cell point", d, lon, lat, res))));
    }
  }
  let _ = C;
  Ok(())
}

fn strat_generic() -> BoxedStrategy<Case> {
  (gens::depth(), gens::position()).prop_map(|(depth, pos)| Case { depth, pos }).boxed()
}

/// positions inside a cell chosen by class, at given cell offsets
fn strat_quadrants() -> BoxedStrategy<Case> {
  let off = || prop_oneof![Just(0.25f64), Just(0.75f64), Just(0.5f64), 0.01f64..0.99];
  (gens::depth_and_cell(), off(), off(), any::<bool>())
    .prop_map(|((depth, cell), a, b, corner24)| {
      let n = 1i64 << depth;
      // optionally replace the cell by one of the 24 cells touching a three-cell point
      let cell = if corner24 && depth > 0 {
        let q = (cell.b & 3) as i64;
        let south = cell.b >= 6;
        let (vx, vy) = (2 * q * n, if south { -n } else { n });
        let cs = lattice::cells_touching_vertex(n, vx, vy);
        cs[(cell.i as usize + cell.j as usize) % cs.len()]
      } else {
        cell
      };
      let (xc, yc) = geom::cell_center_plane(n, cell);
      let hw = 1.0 / n as f64;
      let (lon, lat) = geom::unproj_ref(xc + (a - b) * hw, yc + (a + b - 1.0) * hw);
      Case { depth, pos: Pos::new(lon, lat, if corner24 { "three_cell_point_quadrant" } else { "cell_quadrant" }) }
    })
    .boxed()
}

pub fn run(ctx: &Ctx, rep: &mut Report) {
  let f = if ctx.profile == "release" { 1 } else { 4 };
  ctx.run_random(rep, "positions", strat_generic, ctx.tier.pick(3_000_000, 150_000_000) / f, check);
  ctx.run_random(rep, "quadrants", strat_quadrants, ctx.tier.pick(3_000_000, 150_000_000) / f, check);
}

pub fn replay(ctx: &Ctx, rep: &mut Report, section: &str, case: &Value) -> Result<(), String> {
  ctx.run_one(rep, section, &super::de::<Case>(case)?, check);
  Ok(())
}
