//! C07 -- BMOC logical operators implement set algebra on plain MOCs.

use super::bmoc_common::{self as bc, Spec};
use crate::engine::*;
use crate::model::bmoc::{self as mb, Iv, MCell};
use cdshealpix::nested::bmoc::BMOC;
use proptest::prelude::*;
use serde::{Deserialize, Serialize};
use serde_json::{json, Value};

#[derive(Clone, Debug, Serialize, Deserialize)]
pub struct Pair {
  pub a: Spec,
  pub b: Spec,
  /// operands in canonical packed form (an ordinary MOC) or left as generated (possibly unpacked)
  pub packed: bool,
}

pub fn meta() -> PropMeta {
  PropMeta {
    id: "C07",
    rule: "exhaustive: universe U1 = depth_max 1 restricted to base cells {0, 11}: all 2^8 MOCs, all 65 536 ordered pairs x {and, or, xor} + not + laws; thorough adds U2 = depth_max 2 inside base cell 5 (2^16 MOCs: not for all, 2*10^6 pairs); random: pairs of full-flag BMOCs with depth_max in 0..=29 (equal or different), cells clustered around shared anchors (siblings, nesting), degenerate shapes (empty, all-sky, first/last leaf, three siblings), operands packed (canonical) or, in a separate class, left unpacked; non-trivial = both operands non-empty and a cell of one strictly contains a cell of the other; distinct by the two cell lists",
    assumptions: vec![
      "reference = leaf-interval model of MOCs with its own decoder of raw entries and canonical packer".into(),
      "for unpacked operands only the set of leaves is compared (canonical form is claimed for ordinary, i.e. packed, MOCs)".into(),
    ],
  }
}

fn raw_of(b: &BMOC) -> Vec<u64> {
  b.entries.iter().copied().collect()
}

fn full_only(iv: Vec<Iv>) -> Vec<Iv> {
  iv
}

pub fn check_pair(c: &Pair, rec: &mut Rec) -> Result<(), Violation> {
  rec.eval();
  let (sa, sb) = if c.packed { (c.a.packed(), c.b.packed()) } else { (c.a.clone(), c.b.clone()) };
  rec.class(if c.packed { "packed" } else { "unpacked" });
  rec.class(&format!("shapes:{}|{}", c.a.shape, c.b.shape));
  rec.class(if sa.depth_max == sb.depth_max { "same_depth_max" } else { "different_depth_max" });
  if !sa.cells.is_empty() && !sb.cells.is_empty() && sa.nests_with(&sb, false) {
    rec.nontrivial(fp_of(&(sa.depth_max, &sa.cells, sb.depth_max, &sb.cells)));
    rec.class("nested_cells");
  }
  rec.sample(|| json!({"a": sa, "b": sb}));
  let dm = sa.depth_max.max(sb.depth_max);
  let nl = mb::n_leaves(dm);
  let (ia, ib) = (sa.intervals(dm), sb.intervals(dm));
  let (a, b) = (bc::build(&sa), bc::build(&sb));
  let f = |v: Violation| v.fact("dm_a", sa.depth_max as f64).fact("dm_b", sb.depth_max as f64).fact("packed", c.packed as u8 as f64).fact("n_a", sa.cells.len() as f64).fact("n_b", sb.cells.len() as f64);
  // ---- not
  for (name, s, x) in [("a", &sa, &a), ("b", &sb, &b)] {
    let r = match catch(|| x.not()) {
      Ok(r) => r,
      Err(p) => return Err(f(Violation::new("not", "panic", format!("not({}) panicked: {}; {} = {:?}", name, p, name, s)))),
    };
    let cells = bc::model_cells("not", "not(x)", &r).map_err(|v| f(v))?;
    if r.get_depth_max() != s.depth_max {
      return Err(f(Violation::new("not", "wrong_depth_max", format!("not({:?}) has depth_max {} instead of {}", s, r.get_depth_max(), s.depth_max))));
    }
    let got = mb::to_intervals(r.get_depth_max(), s.depth_max, &cells);
    let want = mb::op_not(&s.intervals(s.depth_max), mb::n_leaves(s.depth_max));
    if r.get_depth_max() != s.depth_max || got != want {
      return Err(f(Violation::new("not", "wrong_set", format!("not({:?}) = {:?} (depth_max {}): not the complement", s, cells, r.get_depth_max()))));
    }
    if c.packed && raw_of(&r) != mb::canonical_raw(s.depth_max, &want) {
      return Err(f(Violation::new("not", "not_canonical", format!("not({:?}) = {:?}: right set but not the canonical packed form", s, cells))));
    }
    // involution with the crate's own equals
    let rr = match catch(|| r.not()) {
      Ok(r) => r,
      Err(p) => return Err(f(Violation::new("not", "panic", format!("not(not({})) panicked: {}", name, p)))),
    };
    if c.packed && !rr.equals(x) {
      return Err(f(Violation::new("laws", "not_involution", format!("not(not(x)) != x for x = {:?}", s))));
    }
  }
  // ---- binary operators
  type Op = fn(&BMOC, &BMOC) -> BMOC;
  let ops: [(&str, Op, fn(&[Iv], &[Iv], u64) -> Vec<Iv>); 3] = [("and", |x, y| x.and(y), mb::op_and), ("or", |x, y| x.or(y), mb::op_or), ("xor", |x, y| x.xor(y), mb::op_xor)];
  let mut results: Vec<BMOC> = vec![];
  for (name, op, mop) in ops.iter() {
    let r = match catch(|| op(&a, &b)) {
      Ok(r) => r,
      Err(p) => return Err(f(Violation::new(name, "panic", format!("a.{}(b) panicked: {}; a = {:?}, b = {:?}", name, p, sa, sb)))),
    };
    let cells = bc::model_cells(name, &format!("a.{}(b)", name), &r).map_err(|v| f(v))?;
    if r.get_depth_max() != dm {
      return Err(f(Violation::new(name, "wrong_depth_max", format!("a.{}(b) has depth_max {} instead of {}", name, r.get_depth_max(), dm))));
    }
    if cells.iter().any(|c| !c.full) {
      return Err(f(Violation::new(name, "partial_flag", format!("a.{}(b) of two full-flag MOCs contains a partial cell: {:?}", name, cells))));
    }
    let got = mb::to_intervals(dm, dm, &cells);
    let want = full_only(mop(&ia, &ib, nl));
    if got != want {
      return Err(f(Violation::new(name, "wrong_set", format!("a.{}(b) = {:?} is not the expected set of leaves {:?}; a = {:?}, b = {:?}", name, cells, &want[..want.len().min(8)], sa, sb))));
    }
    if c.packed && raw_of(&r) != mb::canonical_raw(dm, &want) {
      return Err(f(Violation::new(name, "not_canonical", format!("a.{}(b) = {:?}: right set but not the canonical packed form; a = {:?}, b = {:?}", name, cells, sa, sb))));
    }
    // commutativity
    let r2 = match catch(|| op(&b, &a)) {
      Ok(r) => r,
      Err(p) => return Err(f(Violation::new(name, "panic", format!("b.{}(a) panicked: {}", name, p)))),
    };
    if c.packed && !r2.equals(&r) {
      return Err(f(Violation::new("laws", "not_commutative", format!("a.{}(b) != b.{}(a); a = {:?}, b = {:?}", name, name, sa, sb))));
    }
    if !c.packed {
      // un-packed operands: no canonical form is claimed, but b.op(a) must still be the right set
      let cells2 = bc::model_cells(name, &format!("b.{}(a)", name), &r2).map_err(|v| f(v))?;
      if r2.get_depth_max() != dm || mb::to_intervals(dm, dm, &cells2) != want {
        return Err(f(Violation::new(name, "wrong_set", format!("b.{}(a) = {:?} is not the expected set of leaves {:?}; a = {:?}, b = {:?}", name, cells2, &want[..want.len().min(8)], sa, sb))));
      }
    }
    results.push(r);
  }
  if c.packed {
    // laws, with the crate's own `equals` (structural): results of packed operands are canonical,
    // and both sides of De Morgan have depth_max = max of the operands', so structural equality is demanded
    let laws = catch(|| -> Result<(), Violation> {
      let (na, nb) = (a.not(), b.not());
      let eq_sets = |x: &BMOC, y: &BMOC| -> Result<bool, Violation> {
        let d = x.get_depth_max().max(y.get_depth_max());
        let cx = bc::model_cells("laws", "lhs", x)?;
        let cy = bc::model_cells("laws", "rhs", y)?;
        Ok(mb::to_intervals(x.get_depth_max(), d, &cx) == mb::to_intervals(y.get_depth_max(), d, &cy))
      };
      let lhs = results[0].not();
      let rhs = na.or(&nb);
      if !(eq_sets(&lhs, &rhs)? && lhs.equals(&rhs)) {
        return Err(Violation::new("laws", "de_morgan_and", format!("not(a and b) != not(a) or not(b); a = {:?}, b = {:?}", sa, sb)));
      }
      let lhs = results[1].not();
      let rhs = na.and(&nb);
      if !(eq_sets(&lhs, &rhs)? && lhs.equals(&rhs)) {
        return Err(Violation::new("laws", "de_morgan_or", format!("not(a or b) != not(a) and not(b); a = {:?}, b = {:?}", sa, sb)));
      }
      // x xor x = empty ; x or not x = whole sky, for both operands
      for (x, nx, sx) in [(&a, &na, &sa), (&b, &nb, &sb)] {
        let e = x.xor(x);
        if e.entries.len() != 0 {
          return Err(Violation::new("laws", "xor_self", format!("x xor x is not empty for x = {:?}", sx)));
        }
        let w = x.or(nx);
        let sky: Vec<u64> = (0..12).map(|h| mb::encode_raw(sx.depth_max, MCell { depth: 0, hash: h, full: true })).collect();
        if raw_of(&w) != sky {
          return Err(Violation::new("laws", "or_complement", format!("x or not(x) = {:?} is not the 12 full base cells, x = {:?}", raw_of(&w), sx)));
        }
      }
      Ok(())
    });
    match laws {
      Ok(r) => r.map_err(|v| f(v))?,
      Err(p) => return Err(f(Violation::new("laws", "panic", format!("an operator panicked while evaluating the laws: {}; a = {:?}, b = {:?}", p, sa, sb)))),
    }
  }
  Ok(())
}

/// spec of the k-th subset of a small leaf universe
fn subset_spec(depth_max: u8, leaves: &[u64], mask: u64) -> Spec {
  let mut iv: Vec<Iv> = vec![];
  for (k, &l) in leaves.iter().enumerate() {
    if mask >> k & 1 == 1 {
      if let Some(last) = iv.last_mut() {
        if last.end == l {
          last.end = l + 1;
          continue;
        }
      }
      iv.push(Iv { start: l, end: l + 1, state: mb::FULL });
    }
  }
  Spec::from_mcells(depth_max, &mb::canonical_cells(depth_max, &iv), "exhaustive")
}

fn u1_leaves() -> Vec<u64> {
  // depth_max 1, base cells 0 and 11
  vec![0, 1, 2, 3, 44, 45, 46, 47]
}

fn u2_leaves() -> Vec<u64> {
  // depth_max 2, base cell 5
  (80..96).collect()
}

fn strat(packed: bool) -> impl Fn() -> BoxedStrategy<Pair> {
  move || bc::spec_pair(false).prop_map(move |(a, b)| Pair { a, b, packed }).boxed()
}

pub fn run(ctx: &Ctx, rep: &mut Report) {
  let l1 = u1_leaves();
  ctx.run_enum(rep, "U1_all_pairs", 1 << 16, |k| Pair { a: subset_spec(1, &l1, k & 0xFF), b: subset_spec(1, &l1, k >> 8), packed: true }, check_pair);
  if ctx.tier == Tier::Thorough {
    let l2 = u2_leaves();
    ctx.run_enum(rep, "U2_all_sets_vs_complement_pattern", 1 << 16, |k| Pair { a: subset_spec(2, &l2, k), b: subset_spec(2, &l2, (k * 40503) & 0xFFFF), packed: true }, check_pair);
    ctx.run_random(
      rep,
      "U2_pairs",
      || (0u64..(1 << 16), 0u64..(1 << 16)).prop_map(|(x, y)| Pair { a: subset_spec(2, &u2_leaves(), x), b: subset_spec(2, &u2_leaves(), y), packed: true }).boxed(),
      2_000_000,
      check_pair,
    );
  }
  ctx.run_random(rep, "random_packed", strat(true), ctx.tier.pick(400_000, 20_000_000), check_pair);
  ctx.run_random(rep, "random_unpacked", strat(false), ctx.tier.pick(200_000, 10_000_000), check_pair);
}

pub fn replay(ctx: &Ctx, rep: &mut Report, section: &str, case: &Value) -> Result<(), String> {
  ctx.run_one(rep, section, &super::de::<Pair>(case)?, check_pair);
  Ok(())
}
