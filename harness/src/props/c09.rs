//! C09 -- Every BMOC handed to the user is well formed and its views agree.

use super::bmoc_common::{self as bc, Spec};
use crate::engine::*;
use crate::gens;
use crate::model::bmoc::{self as mb, Iv, MCell};
use crate::model::geom;
use cdshealpix::nested;
use cdshealpix::nested::bmoc::{BMOCBuilderFixedDepth, BMOCBuilderUnsafe, BMOC};
use proptest::prelude::*;
use serde::{Deserialize, Serialize};
use serde_json::{json, Value};
use std::f64::consts::PI;

#[derive(Clone, Debug, Serialize, Deserialize)]
pub enum Producer {
  Cone { depth: u8, delta: u8, lon: f64, lat: f64, radius: f64 },
  Ellipse { depth: u8, delta: u8, lon: f64, lat: f64, a: f64, b: f64, pa: f64 },
  Polygon { depth: u8, exact: bool, verts: Vec<(f64, f64)> },
  Fixed { depth: u8, full: bool, capacity: usize, pushes: Vec<u64>, #[serde(default)] reuse: Option<usize> },
  Unsafe { spec: Spec, mode: u8, new_depth: u8 },
}

#[derive(Clone, Debug, Serialize, Deserialize)]
pub struct Op {
  /// 0 not, 1 and, 2 or, 3 xor
  pub kind: u8,
  pub a: u16,
  pub b: u16,
}

#[derive(Clone, Debug, Serialize, Deserialize)]
pub struct History {
  pub producers: Vec<Producer>,
  pub ops: Vec<Op>,
}

pub fn meta() -> PropMeta {
  PropMeta {
    id: "C09",
    rule: "cases = histories: a pool filled by 2..=5 producers (cone approx/custom, elliptical cone plain/custom, polygon approximate/exact, fixed-depth builder with small buffer capacities, unsafe builder with to_bmoc / packing / lower-depth (packing or not)), then 0..=12 operators not/and/or/xor on pool entries, every result going back to the pool; after every step the well-formedness predicate, the agreement of all views (into_iter, flat_iter, flat_iter_cell, to_flat_array, deep_size, size_hint, to_ranges) and the leaf-map oracle of C07/C08; non-trivial = history with >= 2 operators whose operands come from two different producers; distinct by the history content",
    assumptions: vec![
      "flattened views are expanded only when deep_size <= 2*10^6 (deep_size, ranges and cell iterator are always checked)".into(),
      "reference: harness' own decoder of raw entries and leaf-interval model".into(),
    ],
  }
}

/// Checks the views of one BMOC; returns its decoded cells.  A panic of one of the views is a
/// violation (the views of a BMOC handed to the user must be usable).
pub fn check_views(what: &str, b: &BMOC) -> Result<Vec<MCell>, Violation> {
  match catch(|| check_views_inner(what, b)) {
    Ok(r) => r,
    Err(p) => Err(Violation::new("views", "panic", format!("{}: a view (iterators / deep_size / to_ranges / to_flat_array) panicked: {}", what, p))),
  }
}

fn check_views_inner(what: &str, b: &BMOC) -> Result<Vec<MCell>, Violation> {
  let dm = b.get_depth_max();
  let cells = bc::model_cells("well_formed", what, b)?;
  let raw: Vec<u64> = b.entries.iter().copied().collect();
  // iter
  let it: Vec<u64> = b.iter().copied().collect();
  if it != raw {
    return Err(Violation::new("views", "iter", format!("{}: iter() differs from the entries", what)));
  }
  // into_iter
  let sh = b.into_iter().size_hint();
  if sh != (raw.len(), Some(raw.len())) {
    return Err(Violation::new("views", "into_iter_size_hint", format!("{}: into_iter().size_hint() = {:?} for {} entries", what, sh, raw.len())));
  }
  let decoded: Vec<(u64, u8, u64, bool)> = b.into_iter().map(|c| (c.raw_value, c.depth, c.hash, c.is_full)).collect();
  let want: Vec<(u64, u8, u64, bool)> = cells.iter().zip(raw.iter()).map(|(c, r)| (*r, c.depth, c.hash, c.full)).collect();
  if decoded != want {
    return Err(Violation::new("views", "into_iter", format!("{}: into_iter() yields {:?}.., the entries decode to {:?}..", what, &decoded[..decoded.len().min(4)], &want[..want.len().min(4)])));
  }
  for (c, r) in cells.iter().zip(raw.iter()) {
    let x = b.from_raw_value(*r);
    if (x.depth, x.hash, x.is_full, x.raw_value) != (c.depth, c.hash, c.full, *r) {
      return Err(Violation::new("views", "from_raw_value", format!("{}: from_raw_value({}) = {:?}", what, r, x)));
    }
  }
  // deep size
  let ds_model: u128 = cells.iter().map(|c| 1u128 << (2 * (dm - c.depth) as u32)).sum();
  let ds = b.deep_size();
  if ds as u128 != ds_model {
    return Err(Violation::new("views", "deep_size", format!("{}: deep_size() = {} but the entries cover {} cells of depth {}", what, ds, ds_model, dm)));
  }
  // ranges
  let iv = mb::to_intervals(dm, dm, &cells);
  let mut merged: Vec<(u64, u64)> = vec![];
  for i in &iv {
    if let Some(l) = merged.last_mut() {
      if l.1 == i.start {
        l.1 = i.end;
        continue;
      }
    }
    merged.push((i.start, i.end));
  }
  let rg: Vec<(u64, u64)> = b.to_ranges().iter().map(|r| (r.start, r.end)).collect();
  if rg != merged {
    return Err(Violation::new("views", "to_ranges", format!("{}: to_ranges() = {:?}.. but the leaves form the ranges {:?}..", what, &rg[..rg.len().min(6)], &merged[..merged.len().min(6)])));
  }
  // flattened views
  if ds_model <= 2_000_000 {
    let mut it = b.flat_iter();
    if it.deep_size() != ds || it.depth() != dm || it.size_hint() != (ds, Some(ds)) {
      return Err(Violation::new("views", "flat_iter_meta", format!("{}: flat_iter(): deep_size {} depth {} size_hint {:?}, expected {} / {}", what, it.deep_size(), it.depth(), it.size_hint(), ds, dm)));
    }
    let mut k = 0usize;
    let mut itc = b.flat_iter_cell();
    if itc.deep_size() != ds || itc.depth() != dm || itc.size_hint() != (ds, Some(ds)) {
      return Err(Violation::new("views", "flat_iter_cell_meta", format!("{}: flat_iter_cell(): deep_size {} depth {} size_hint {:?}", what, itc.deep_size(), itc.depth(), itc.size_hint())));
    }
    let arr = b.to_flat_array();
    if arr.len() != ds {
      return Err(Violation::new("views", "to_flat_array", format!("{}: to_flat_array() has {} cells, deep_size is {}", what, arr.len(), ds)));
    }
    for (c, r) in cells.iter().zip(raw.iter()) {
      let (s, e) = mb::leaf_range(dm, c);
      for h in s..e {
        let got = it.next();
        if got != Some(h) {
          return Err(Violation::new("views", "flat_iter", format!("{}: flat_iter() yields {:?} at position {}, expected {}", what, got, k, h)));
        }
        match itc.next() {
          Some(x) if x.hash == h && x.depth == dm && x.is_full == c.full && x.raw_value == *r => {}
          other => return Err(Violation::new("views", "flat_iter_cell", format!("{}: flat_iter_cell() yields {:?} at position {}, expected cell {} of depth {} flag {} raw {}", what, other, k, h, dm, c.full, r))),
        }
        if arr[k] != h {
          return Err(Violation::new("views", "to_flat_array", format!("{}: to_flat_array()[{}] = {}, expected {}", what, k, arr[k], h)));
        }
        k += 1;
        if k % 4099 == 1 || k == ds {
          let rem = ds - k;
          if it.size_hint() != (rem, Some(rem)) || itc.size_hint() != (rem, Some(rem)) {
            return Err(Violation::new("views", "size_hint", format!("{}: after {} items size_hint is {:?} / {:?}, expected {}", what, k, it.size_hint(), itc.size_hint(), rem)));
          }
        }
      }
    }
    if it.next().is_some() || itc.next().is_some() {
      return Err(Violation::new("views", "flat_iter_too_long", format!("{}: flat iterators yield more than deep_size items", what)));
    }
    // exhausted iterators stay exhausted and keep describing an empty remainder (a consumer
    // polling past the end -- chain, zip, a chunked drain -- must not see a phantom length)
    for _ in 0..2 {
      if it.size_hint() != (0, Some(0)) || itc.size_hint() != (0, Some(0)) {
        return Err(Violation::new("views", "size_hint_after_end", format!("{}: exhausted flat iterators report size_hint {:?} / {:?}", what, it.size_hint(), itc.size_hint())));
      }
      if it.next().is_some() || itc.next().is_some() {
        return Err(Violation::new("views", "flat_iter_too_long", format!("{}: an exhausted flat iterator yields an item again", what)));
      }
    }
  }
  if ds_model > 2_000_000 && ds_model <= usize::MAX as u128 {
    // too many leaves to expand: the first 20 000 items of the two flat iterators and their size_hint
    // (entries with a large depth difference: the shifts of next_cell)
    let mut it = b.flat_iter();
    let mut itc = b.flat_iter_cell();
    let mut k = 0usize;
    'outer: for (c, r) in cells.iter().zip(raw.iter()) {
      let (s, e) = mb::leaf_range(dm, c);
      for h in s..e {
        if k >= 20_000 {
          break 'outer;
        }
        let got = it.next();
        if got != Some(h) {
          return Err(Violation::new("views", "flat_iter", format!("{}: flat_iter() yields {:?} at position {}, expected {}", what, got, k, h)));
        }
        match itc.next() {
          Some(x) if x.hash == h && x.depth == dm && x.is_full == c.full && x.raw_value == *r => {}
          other => return Err(Violation::new("views", "flat_iter_cell", format!("{}: flat_iter_cell() yields {:?} at position {}, expected cell {} of depth {} flag {} raw {}", what, other, k, h, dm, c.full, r))),
        }
        k += 1;
      }
    }
    let rem = ds - k;
    if it.size_hint() != (rem, Some(rem)) || itc.size_hint() != (rem, Some(rem)) {
      return Err(Violation::new("views", "size_hint", format!("{}: after {} items size_hint is {:?} / {:?}, expected {}", what, k, it.size_hint(), itc.size_hint(), rem)));
    }
  }
  Ok(cells)
}

fn produce(p: &Producer) -> Result<Option<BMOC>, String> {
  match p {
    Producer::Cone { depth, delta, lon, lat, radius } => catch(|| Some(if *delta == 0 { nested::cone_coverage_approx(*depth, *lon, *lat, *radius) } else { nested::cone_coverage_approx_custom(*depth, *delta, *lon, *lat, *radius) })),
    Producer::Ellipse { depth, delta, lon, lat, a, b, pa } => {
      catch(|| Some(if *delta == 0 { nested::elliptical_cone_coverage(*depth, *lon, *lat, *a, *b, *pa) } else { nested::elliptical_cone_coverage_custom(*depth, *delta, *lon, *lat, *a, *b, *pa) }))
    }
    Producer::Polygon { depth, exact, verts } => catch(|| Some(nested::polygon_coverage(*depth, verts, *exact))),
    Producer::Fixed { depth, full, capacity, pushes, reuse } => catch(|| {
      let mut b = BMOCBuilderFixedDepth::with_capacity(*depth, *full, *capacity);
      // a builder used again after to_bmoc(&mut self): the BMOC of the second use is the one examined
      let k = reuse.map(|k| k.min(pushes.len())).unwrap_or(0);
      for &h in &pushes[..k] {
        b.push(h);
      }
      if reuse.is_some() {
        let _ = b.to_bmoc();
      }
      for &h in &pushes[k..] {
        b.push(h);
      }
      b.to_bmoc()
    }),
    Producer::Unsafe { spec, mode, new_depth } => catch(|| {
      let mut b = BMOCBuilderUnsafe::new(spec.depth_max, spec.cells.len().max(1));
      if *mode == 3 {
        // really unordered input for to_bmoc_from_unordered: odd positions first, then the even ones backwards
        for &(d, h, f) in spec.cells.iter().skip(1).step_by(2) {
          b.push(d, h, f);
        }
        for &(d, h, f) in spec.cells.iter().step_by(2).rev() {
          b.push(d, h, f);
        }
      } else {
        for &(d, h, f) in &spec.cells {
          b.push(d, h, f);
        }
      }
      Some(match mode {
        0 => b.to_bmoc(),
        1 => b.to_bmoc_packing(),
        2 if *new_depth < spec.depth_max => b.to_lower_depth_bmoc_packing(*new_depth),
        _ => b.to_bmoc_from_unordered(),
      })
    }),
  }
}

pub fn check(c: &History, rec: &mut Rec) -> Result<(), Violation> {
  rec.eval();
  let f = |v: Violation, step: usize| v.fact("step", step as f64).fact("n_producers", c.producers.len() as f64).fact("n_ops", c.ops.len() as f64);
  // pool entries: (bmoc, model intervals at its depth_max, origin producer set)
  let mut pool: Vec<(BMOC, Vec<Iv>, u32)> = vec![];
  for (k, p) in c.producers.iter().enumerate() {
    let name = match p {
      Producer::Cone { .. } => "cone",
      Producer::Ellipse { .. } => "ellipse",
      Producer::Polygon { .. } => "polygon",
      Producer::Fixed { reuse: Some(_), .. } => "fixed_builder_reused",
      Producer::Fixed { .. } => "fixed_builder",
      Producer::Unsafe { .. } => "unsafe_builder",
    };
    rec.class(&format!("producer:{}", name));
    let b = match produce(p) {
      Ok(Some(b)) => b,
      Ok(None) => continue,
      Err(pn) => {
        let spf = pn.contains("special_points_finder.rs") && pn.contains("assertion failed");
        let exact_poly = matches!(p, Producer::Polygon { exact: true, .. });
        return Err(f(Violation::new("producer", "panic", format!("producer {} ({:?}) panicked: {}", k, p, pn)).fact("chk", chk_fact()).fact("debug_assert_in_special_points_finder", spf as u8 as f64).fact("exact", exact_poly as u8 as f64), k));
      }
    };
    let cells = check_views(&format!("output of producer {} ({})", k, name), &b).map_err(|v| f(v, k))?;
    let iv = mb::to_intervals(b.get_depth_max(), b.get_depth_max(), &cells);
    pool.push((b, iv, 1 << k));
  }
  if pool.is_empty() {
    return Ok(());
  }
  let mut mixed_ops = 0;
  for (s, op) in c.ops.iter().enumerate() {
    let len = pool.len();
    let ia = (op.a as usize * len) >> 16;
    let ib = (op.b as usize * len) >> 16;
    let step = c.producers.len() + s;
    let name = ["not", "and", "or", "xor"][(op.kind & 3) as usize];
    rec.class(&format!("op:{}", name));
    let (res, expect, origin, dm) = {
      let (a, iva, oa) = (&pool[ia].0, &pool[ia].1, pool[ia].2);
      let (b, ivb, ob) = (&pool[ib].0, &pool[ib].1, pool[ib].2);
      let (da, db) = (a.get_depth_max(), b.get_depth_max());
      let lift = |iv: &Vec<Iv>, from: u8, to: u8| -> Vec<Iv> { iv.iter().map(|i| Iv { start: i.start << (2 * (to - from) as u32), end: i.end << (2 * (to - from) as u32), state: i.state }).collect() };
      if op.kind & 3 == 0 {
        let r = catch(|| a.not());
        (r, mb::op_not(iva, mb::n_leaves(da)), oa, da)
      } else {
        let dm = da.max(db);
        let (la, lb) = (lift(iva, da, dm), lift(ivb, db, dm));
        let nl = mb::n_leaves(dm);
        if oa & !ob != 0 && ob & !oa != 0 {
          mixed_ops += 1;
        }
        match op.kind & 3 {
          1 => (catch(|| a.and(b)), mb::op_and(&la, &lb, nl), oa | ob, dm),
          2 => (catch(|| a.or(b)), mb::op_or(&la, &lb, nl), oa | ob, dm),
          _ => (catch(|| a.xor(b)), mb::op_xor(&la, &lb, nl), oa | ob, dm),
        }
      }
    };
    let r = match res {
      Ok(r) => r,
      Err(pn) => return Err(f(Violation::new("operator", "panic", format!("step {}: {} on pool entries {} and {} panicked: {}", step, name, ia, ib, pn)), step)),
    };
    let cells = check_views(&format!("result of step {} ({} on pool entries {}, {})", step, name, ia, ib), &r).map_err(|v| f(v, step))?;
    if r.get_depth_max() != dm {
      return Err(f(Violation::new("operator", "wrong_depth_max", format!("step {}: {} has depth_max {} instead of {}", step, name, r.get_depth_max(), dm)), step));
    }
    let got = mb::to_intervals(dm, dm, &cells);
    if got != expect {
      return Err(f(Violation::new("operator", "wrong_map", format!("step {}: {} on pool entries {} and {} does not give the expected cell-to-state map ({} vs {} intervals)", step, name, ia, ib, got.len(), expect.len())), step));
    }
    pool.push((r, got, origin));
  }
  if mixed_ops >= 2 {
    rec.nontrivial(fp_of(&serde_json::to_string(c).unwrap_or_default()));
    rec.class("two_ops_mixing_producers");
  }
  rec.sample(|| json!({"n_producers": c.producers.len(), "ops": c.ops, "first_producer": c.producers.first()}));
  Ok(())
}

fn producer() -> BoxedStrategy<Producer> {
  let pos = || gens::position_principal();
  let cone = (0u8..=7, prop_oneof![3 => Just(0u8), 1 => 1u8..=2], pos(), prop_oneof![4 => (-3.0f64..0.5).prop_map(|u| (10.0f64).powf(u)), 1 => Just(PI), 1 => Just(3.5f64)])
    .prop_map(|(depth, delta, p, radius)| Producer::Cone { depth: depth.saturating_sub(delta), delta, lon: p.lon, lat: p.lat, radius });
  let ell = (0u8..=7, prop_oneof![3 => Just(0u8), 1 => 1u8..=2], pos(), (-3.0f64..0.19).prop_map(|u| (10.0f64).powf(u)), 0.05f64..=1.0, 0.0f64..PI)
    .prop_map(|(depth, delta, p, a, fr, pa)| Producer::Ellipse { depth: depth.saturating_sub(delta), delta, lon: p.lon, lat: p.lat, a, b: a * fr, pa });
  let poly = (0u8..=7, any::<bool>(), pos(), (-2.5f64..-0.16).prop_map(|u| (10.0f64).powf(u)), 3usize..=6, prop::collection::vec(0.0f64..1.0, 6), prop::collection::vec(0.3f64..=1.0, 6), 0.0f64..(2.0 * PI)).prop_map(
    |(depth, exact, p, r, k, jit, rad, az0)| {
      let lat_max = geom::HALF_PI - r - 0.0201;
      let lat_c = p.lat.max(-lat_max).min(lat_max);
      let amp = if k == 3 { 0.4 } else { 0.8 };
      let verts = (0..k).map(|i| geom::point_at(p.lon, lat_c, r * rad[i], az0 + (i as f64 + amp * jit[i]) * 2.0 * PI / k as f64)).collect();
      Producer::Polygon { depth, exact, verts }
    },
  );
  let fixed = (0u8..=7, any::<bool>(), prop::sample::select(vec![1usize, 2, 3, 5, 8, 17, 1000])).prop_flat_map(|(depth, full, capacity)| {
    let n = 12u64 << (2 * depth as u32);
    prop::collection::vec((0u64..n, 1u64..40), 0..8).prop_map(move |runs| {
      let mut pushes = vec![];
      for (s, l) in runs {
        for h in s..(s + l).min(n) {
          pushes.push(h);
        }
      }
      Producer::Fixed { depth, full, capacity, reuse: if pushes.len() % 4 == 1 { Some(pushes.len() / 3) } else { None }, pushes }
    })
  });
  let uns = (prop_oneof![4 => 0u8..=7, 1 => prop::sample::select(vec![12u8, 20, 29])], any::<bool>(), 0u8..4, 0u8..=7, 0u8..4).prop_flat_map(|(dm, mixed, mode, nd, rel)| {
    // lowering by 1..3 levels as well as down to a shallow depth
    let nd = if rel > 0 && dm > rel { dm - rel } else { nd };
    bc::random_spec(dm, mixed).prop_map(move |spec| Producer::Unsafe { spec, mode, new_depth: nd })
  });
  // deep coverages: a cone / ellipse of a few cells at depth 20..=29 (the branch without recursion), a deep fixed-depth builder
  let deep_cone = (20u8..=29, prop_oneof![3 => Just(0u8), 1 => 1u8..=2], pos(), 0.2f64..3.0)
    .prop_map(|(dd, delta, p, f)| Producer::Cone { depth: dd - delta, delta, lon: p.lon, lat: p.lat, radius: f * 1.0 / (1u64 << dd) as f64 });
  let deep_ell = (20u8..=29, prop_oneof![3 => Just(0u8), 1 => 1u8..=2], pos(), 0.2f64..3.0, 0.05f64..=1.0, 0.0f64..PI)
    .prop_map(|(dd, delta, p, f, fr, pa)| { let a = f * 1.0 / (1u64 << dd) as f64; Producer::Ellipse { depth: dd - delta, delta, lon: p.lon, lat: p.lat, a, b: a * fr, pa } });
  let deep_fixed = (8u8..=29, any::<bool>(), prop::sample::select(vec![2usize, 5, 1000])).prop_flat_map(|(depth, full, capacity)| {
    let n = 12u64 << (2 * depth as u32);
    prop::collection::vec((0u64..n, 1u64..40), 0..6).prop_map(move |runs| {
      let mut pushes = vec![];
      for (s, l) in runs {
        // aligned starts now and then, so that the builder packs
        let s = if l % 3 == 0 { s & !0xFF } else { s };
        for h in s..(s + l).min(n) {
          pushes.push(h);
        }
      }
      Producer::Fixed { depth, full, capacity, reuse: if pushes.len() % 4 == 1 { Some(pushes.len() / 3) } else { None }, pushes }
    })
  });
  prop_oneof![6 => cone, 4 => ell, 4 => poly, 4 => fixed, 6 => uns, 1 => deep_cone, 1 => deep_ell, 1 => deep_fixed].boxed()
}

fn strat() -> BoxedStrategy<History> {
  (prop::collection::vec(producer(), 2..=5), prop::collection::vec((0u8..4, any::<u16>(), any::<u16>()).prop_map(|(kind, a, b)| Op { kind, a, b }), 0..=12)).prop_map(|(producers, ops)| History { producers, ops }).boxed()
}

pub fn run(ctx: &Ctx, rep: &mut Report) {
  let f = if ctx.profile == "release" { 1 } else { 4 };
  ctx.run_random(rep, "histories", strat, ctx.tier.pick(30_000, 1_500_000) / f, check);
}

pub fn replay(ctx: &Ctx, rep: &mut Report, section: &str, case: &Value) -> Result<(), String> {
  ctx.run_one(rep, section, &super::de::<History>(case)?, check);
  Ok(())
}
