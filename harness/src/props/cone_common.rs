//! Shared by C05 / C06 (and C09, C13): generated cones and the model view of a coverage result.

use crate::gens;
use crate::model::bmoc::{self as mb, MCell};
use proptest::prelude::*;
use serde::{Deserialize, Serialize};
use std::f64::consts::PI;

#[derive(Clone, Debug, Serialize, Deserialize)]
pub struct Cone {
  pub depth: u8,
  /// 0: cone_coverage_approx; k > 0: cone_coverage_approx_custom(delta_depth = k)
  pub delta: u8,
  pub lon: f64,
  pub lat: f64,
  pub radius: f64,
  pub radius_class: String,
  pub center_class: String,
  /// rim azimuths
  pub az: Vec<f64>,
  /// interior witnesses: (fraction of the radius, azimuth)
  pub interior: Vec<(f64, f64)>,
  /// absolute witness points (used if they lie inside the cone): the point the rim was aimed at
  /// and its immediate surroundings, for the class "rim_through_point"
  #[serde(default)]
  pub extra: Vec<(f64, f64)>,
  /// deepest depth at which C05 also walks over all the cells of the sphere (default 6)
  #[serde(default)]
  pub exh_max: Option<u8>,
}

pub fn thresholds() -> &'static [f64; 30] {
  use std::sync::OnceLock;
  static T: OnceLock<[f64; 30]> = OnceLock::new();
  T.get_or_init(|| {
    let mut t = [0.0; 30];
    for k in 0..30u8 {
      t[k as usize] = super::c16::threshold_by_bisection(k);
    }
    t
  })
}

/// The 30 limits as the *documented geometric quantity*, recomputed by the model (independent of
/// the crate's table): used to describe a radius relatively to the nearest limit above it in the
/// facts of a violation, so that the signature of known finding D17 does not follow a change of
/// the table itself.
pub fn model_thresholds() -> &'static [f64; 30] {
  use std::sync::OnceLock;
  static T: OnceLock<[f64; 30]> = OnceLock::new();
  T.get_or_init(|| {
    let mut t = [0.0; 30];
    for k in 0..30u8 {
      t[k as usize] = super::c16::model_threshold(k);
    }
    t
  })
}

/// radius / (smallest model limit above the radius), 0 if the radius is above all limits.  The model
/// and the crate's table agree to ~1e-9 only, so a limit counts as "above" the radius up to a
/// relative slack of 1e-6 (the ratio may then be 1 + 1e-6 at most).
pub fn rel_to_model_limit(radius: f64) -> f64 {
  let t = model_thresholds();
  for k in (0..30).rev() {
    if radius < t[k] * (1.0 + 1e-6) {
      return radius / t[k];
    }
  }
  0.0
}

pub fn radius() -> BoxedStrategy<(f64, String)> {
  let t = *thresholds();
  prop_oneof![
    5 => (-9.0f64..0.497).prop_map(|u| ((10.0f64).powf(u), "log_uniform".to_string())),
    4 => (0usize..30, prop::sample::select(vec![1e-12f64, 1e-6, 1e-3, 3e-2]), any::<bool>()).prop_map(move |(k, e, up)| (t[k] * if up { 1.0 + e } else { 1.0 - e }, "near_threshold".to_string())),
    2 => (PI / 2.0..PI).prop_map(|r| (r, "above_half_pi".to_string())),
    1 => (0.8f64..PI / 2.0).prop_map(|r| (r, "large".to_string())),
    1 => prop::sample::select(vec![PI, PI + 0.1, 4.0, crate::model::geom::next_down(PI)]).prop_map(|r| (r, "pi_and_above".to_string())),
  ]
  .boxed()
}

/// (depth, delta) such that the output stays small: radius * nside(depth + delta) <= budget
pub fn depth_for(radius: f64, budget: f64) -> BoxedStrategy<(u8, u8)> {
  // r >= pi: the answer is the 12 base cells whatever the depth
  let maxd = if radius >= PI { 29 } else { ((budget / radius).log2().floor() as i32).max(0).min(29) as u8 };
  // the depth at which the algorithm switches from "centre cell + neighbours" to the recursion
  let t = thresholds();
  let ds = (0..30usize).rev().find(|k| radius < t[*k]).unwrap_or(0) as u8;
  (
    prop_oneof![3 => Just(maxd), 2 => Just(maxd.saturating_sub(1)), 2 => Just(maxd.saturating_sub(3)), 3 => 0u8..=maxd, 1 => Just(ds.min(maxd)), 1 => Just((ds + 1).min(maxd))],
    prop_oneof![6 => Just(0u8), 4 => 1u8..=2, 2 => 3u8..=4, 1 => 5u8..=29],
  )
    .prop_map(move |(dd, delta)| {
      // dd is the computation depth; the requested depth is dd - delta
      let delta = delta.min(dd);
      (dd - delta, delta)
    })
    .boxed()
}

/// Radius specification: a value, or "the rim passes through (or within a relative eps of) a
/// given point": a pole, a cell vertex / centre of some depth, any position of the shared generator.
#[derive(Clone, Debug)]
enum RSpec {
  Value(f64, String),
  Through((f64, f64), f64),
}

fn rspec() -> BoxedStrategy<RSpec> {
  let target = prop_oneof![
    2 => any::<bool>().prop_map(|s| (0.0, if s { -crate::model::geom::HALF_PI } else { crate::model::geom::HALF_PI })),
    5 => gens::position().prop_map(|p| (p.lon, p.lat)),
  ];
  let eps = prop_oneof![
    2 => Just(0.0f64),
    6 => (prop::sample::select(vec![1e-15f64, 1e-12, 1e-9, 1e-7, 3e-7, 1e-6, 1e-4]), any::<bool>()).prop_map(|(e, neg)| if neg { -e } else { e }),
  ];
  prop_oneof![
    5 => radius().prop_map(|(r, c)| RSpec::Value(r, c)),
    1 => (target, eps).prop_map(|(t, e)| RSpec::Through(t, e)),
  ]
  .boxed()
}

pub fn cone() -> BoxedStrategy<Cone> {
  prop_oneof![7 => cone_generic(), 1 => cone_small_at_polar_border()].boxed()
}

/// Directed class: a cone handled by the "cell of the centre + its 8 neighbours" branch (radius
/// between two consecutive starting-depth limits, requested depth not deeper than the starting
/// depth), centred in or next to a cell lying along the border between two base cells of a polar
/// cap (or at the pole), where the cells are the most elongated and the bound on the
/// centre-to-vertex distance the largest: the place where a neighbour is dropped first if that
/// bound is evaluated for another position.
fn cone_small_at_polar_border() -> BoxedStrategy<Cone> {
  use crate::model::geom;
  use crate::model::lattice::Cell;
  let t = *thresholds();
  (0u8..30, 0u8..4, any::<bool>(), any::<bool>(), 0.0f64..1.0, prop_oneof![3 => 0.0f64..1.0, 1 => Just(0.999999f64), 1 => Just(1e-6f64)], (0.0f64..1.5, 0.0f64..(2.0 * PI)), prop_oneof![6 => Just(0u8), 3 => 1u8..=2], 0u8..3)
    .prop_flat_map(move |(ds, q, south, on_i, u, fr, (off, offaz), delta, less)| {
      let n = 1i64 << ds;
      let m = (n - 1) as u32;
      // distance to the pole along the border, log-uniform in cells
      let k = (((n as f64).powf(u) - 1.0) as i64).max(0).min(n - 1) as u32;
      let cell = Cell { b: if south { 8 + q } else { q }, i: if on_i { m } else { m - k }, j: if on_i { m - k } else { m } };
      let (cl, cb) = geom::cell_center_sphere(n, cell);
      let hi = t[ds as usize];
      let lo = if ds < 29 { t[ds as usize + 1] } else { 0.3 * hi };
      let r = lo + (hi - lo) * fr;
      let (lon, lat) = geom::point_at(cl, cb, off * r, offaz);
      let delta = delta.min(ds);
      let depth = (ds - delta).saturating_sub(less);
      (prop::collection::vec(0.0f64..(2.0 * PI), 8..20), prop::collection::vec((0.0f64..1.0, 0.0f64..(2.0 * PI)), 8..24)).prop_map(move |(mut az, interior)| {
        for k in 0..16 {
          az.push(k as f64 * PI / 8.0);
        }
        Cone { depth, delta, lon: lon.rem_euclid(2.0 * PI), lat, radius: r, radius_class: "between_limits".to_string(), center_class: "polar_border_small_cone".to_string(), az, interior, extra: vec![], exh_max: None }
      })
    })
    .boxed()
}

/// Directed class: cones handled by the "cell of the centre + its 8 neighbours" branch at the low
/// depths (starting depth 0..=8, where neighbouring cells differ most in size and shape), requested
/// depth = starting depth most of the time, centre anywhere with a bias towards the polar caps.
pub fn cone_small_low_depth() -> BoxedStrategy<Cone> {
  use crate::model::geom;
  let t = *thresholds();
  let lat = prop_oneof![
    2 => (-1.0f64..1.0).prop_map(|z| z.asin()),
    3 => (0.6f64..geom::HALF_PI, any::<bool>()).prop_map(|(b, s)| if s { -b } else { b }),
  ];
  (0u8..=8, 0.0f64..(2.0 * PI), lat, prop_oneof![4 => 0.0f64..1.0, 1 => Just(0.999999f64)], prop_oneof![3 => Just(0u8), 1 => 1u8..=2], prop_oneof![4 => Just(0u8), 1 => 1u8..=2], prop::collection::vec(0.0f64..(2.0 * PI), 8..20), prop::collection::vec((0.8f64..1.0, 0.0f64..(2.0 * PI)), 4..8))
    .prop_map(move |(ds, lon, lat, fr, delta, less, mut az, interior)| {
      let hi = t[ds as usize];
      let lo = t[ds as usize + 1];
      let r = lo + (hi - lo) * fr;
      let delta = delta.min(ds);
      let depth = (ds - delta).saturating_sub(less);
      for k in 0..48 {
        az.push(k as f64 * PI / 24.0);
      }
      Cone { depth, delta, lon, lat, radius: r, radius_class: "between_limits".to_string(), center_class: "low_depth_small_cone".to_string(), az, interior, extra: vec![], exh_max: Some(3) }
    })
    .boxed()
}

fn cone_generic() -> BoxedStrategy<Cone> {
  (rspec(), gens::position_principal(), prop_oneof![6 => Just(48.0f64), 1 => Just(200.0f64)])
    .prop_flat_map(|(rs, pos, budget)| {
      let (r, rc, extra) = match rs {
        RSpec::Value(r, c) => (r, c, vec![]),
        RSpec::Through((tl, tb), eps) => {
          let dist = crate::model::geom::ang_dist(pos.lon, pos.lat, tl, tb);
          let r = dist * (1.0 + eps);
          if !(r > 1e-9) || r > PI {
            (1e-3, "log_uniform".to_string(), vec![])
          } else {
            // the aimed point and 8 points at ~1e-10 r around it (several of the cells meeting there)
            let e = 1e-10 * r;
            let c = tb.cos().max(1e-6);
            let mut extra = vec![(tl, tb)];
            for (a, b) in [(1.0, 0.0), (-1.0, 0.0), (0.0, 1.0), (0.0, -1.0), (1.0, 1.0), (1.0, -1.0), (-1.0, 1.0), (-1.0, -1.0)] {
              let bb: f64 = tb + b * e;
              if bb.abs() <= crate::model::geom::HALF_PI {
                extra.push((tl + a * e / c, bb));
              }
            }
            (r, "rim_through_point".to_string(), extra)
          }
        }
      };
      (depth_for(r, budget), prop::collection::vec(0.0f64..(2.0 * PI), 8..20), prop::collection::vec((0.0f64..1.0, 0.0f64..(2.0 * PI)), 8..24)).prop_map(move |((depth, delta), mut az, interior)| {
        for k in 0..16 {
          az.push(k as f64 * PI / 8.0);
        }
        Cone { depth, delta, lon: pos.lon, lat: pos.lat, radius: r, radius_class: rc.clone(), center_class: pos.class.clone(), az, interior, extra: extra.clone(), exh_max: None }
      })
    })
    .boxed()
}

/// Sorted leaf ranges (at depth `depth_max`) of decoded cells, for "is this leaf covered" queries.
pub struct Coverage {
  pub depth_max: u8,
  pub ranges: Vec<(u64, u64, bool)>,
}

impl Coverage {
  pub fn new(depth_max: u8, cells: &[MCell]) -> Coverage {
    Coverage { depth_max, ranges: cells.iter().map(|c| { let (s, e) = mb::leaf_range(depth_max, c); (s, e, c.full) }).collect() }
  }
  /// state of leaf h: None absent, Some(full?)
  pub fn get(&self, h: u64) -> Option<bool> {
    let k = self.ranges.partition_point(|r| r.1 <= h);
    if k < self.ranges.len() && self.ranges[k].0 <= h {
      Some(self.ranges[k].2)
    } else {
      None
    }
  }
}
