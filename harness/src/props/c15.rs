//! C15 -- BMOC builders preserve exactly what was pushed.

use super::bmoc_common::{self as bc, Spec};
use crate::engine::*;
use crate::model::bmoc::{self as mb, Iv};
use cdshealpix::nested::bmoc::{BMOCBuilderFixedDepth, BMOCBuilderUnsafe};
use proptest::prelude::*;
use serde::{Deserialize, Serialize};
use serde_json::{json, Value};
use std::collections::BTreeSet;

#[derive(Clone, Debug, Serialize, Deserialize)]
pub struct Seg {
  /// 0 ascending run, 1 descending run, 2 the same value repeated, 3 single
  pub kind: u8,
  pub start: u64,
  pub len: u32,
}

#[derive(Clone, Debug, Serialize, Deserialize)]
pub struct Pushes {
  pub depth: u8,
  pub full: bool,
  pub capacity: usize,
  pub segs: Vec<Seg>,
  /// Some(f): the builder is re-used: to_bmoc() is also called after the first f/1000 of the pushes
  /// (and once more right after the last one)
  #[serde(default)]
  pub reuse: Option<u16>,
}

#[derive(Clone, Debug, Serialize, Deserialize)]
pub struct PackCase {
  pub spec: Spec,
  /// None: pack only; Some(d): lower to depth d (may be >= depth_max: must be rejected)
  pub new_depth: Option<u8>,
  /// use the packing variant of the lowering
  pub packing: bool,
}

pub fn meta() -> PropMeta {
  PropMeta {
    id: "C15",
    rule: "fixed-depth builder: histories (depth 0..=29, flag, capacity in {1,2,3,4,5,7,8,16,17,63,64,10000}, 0..=14 segments: ascending / descending runs starting on or off 4^k boundaries with lengths 4^k + {-1,0,1} or 5..=130, repeated values, singles, re-pushed earlier runs); pack / lower-depth: valid cell sequences from the BMOC generator (packed for the non-packing lowering, any for the packing variants), new_depth below depth_max and the rejected new_depth >= depth_max; non-trivial = history with >= 2 buffer drains and >= 1 duplicate, or a run crossing a parent-cell boundary; for pack/lower: >= 1 group of four full siblings or a cell deeper than new_depth; distinct by the case content",
    assumptions: vec!["pushed cell numbers are below 12*4^depth (documented precondition 'the hash must be at the builder depth')".into(), "reference = leaf-interval model".into()],
  }
}

fn expand(p: &Pushes) -> Vec<u64> {
  let n = 12u64 << (2 * p.depth as u32);
  let mut v = vec![];
  for s in &p.segs {
    let start = s.start.min(n - 1);
    match s.kind {
      0 => {
        for k in 0..s.len as u64 {
          if start + k < n {
            v.push(start + k);
          }
        }
      }
      1 => {
        for k in (0..s.len as u64).rev() {
          if start + k < n {
            v.push(start + k);
          }
        }
      }
      2 => {
        for _ in 0..s.len.min(40) {
          v.push(start);
        }
      }
      _ => v.push(start),
    }
  }
  v
}

pub fn check_pushes(c: &Pushes, rec: &mut Rec) -> Result<(), Violation> {
  rec.eval();
  let seq = expand(c);
  let set: BTreeSet<u64> = seq.iter().copied().collect();
  let drains = if c.capacity > 0 { seq.len() / c.capacity } else { 0 };
  let dups = seq.len() - set.len();
  let crosses = c.segs.iter().any(|s| s.kind <= 1 && s.len > 1 && (s.start >> 2) != ((s.start + s.len as u64 - 1) >> 2));
  rec.class(&format!("cap{}", c.capacity));
  rec.class(if c.full { "flag_full" } else { "flag_partial" });
  if (drains >= 2 && dups >= 1) || crosses {
    rec.nontrivial(fp_of(&(c.depth, c.full, c.capacity, &seq)));
    rec.class("nontrivial");
  }
  rec.sample(|| json!(c));
  let f = |v: Violation| v.fact("depth", c.depth as f64).fact("capacity", c.capacity as f64).fact("full", c.full as u8 as f64).fact("n_pushes", seq.len() as f64);
  if let Some(fr) = c.reuse {
    rec.class("builder_reused");
    return check_reuse(c, &seq, (seq.len() * fr as usize) / 1000);
  }
  let r = catch(|| {
    let mut b = BMOCBuilderFixedDepth::with_capacity(c.depth, c.full, c.capacity);
    for &h in &seq {
      b.push(h);
    }
    b.to_bmoc()
  });
  let r = match r {
    Ok(r) => r,
    Err(p) => return Err(f(Violation::new("fixed_depth_builder", "panic", format!("builder(depth {}, full {}, capacity {}) panicked after pushes {:?}..: {}", c.depth, c.full, c.capacity, &seq[..seq.len().min(24)], p)))),
  };
  match r {
    None => {
      if !seq.is_empty() {
        return Err(f(Violation::new("fixed_depth_builder", "nothing_returned", format!("to_bmoc() returned None although {} cells were pushed", seq.len()))));
      }
    }
    Some(b) => {
      if seq.is_empty() {
        return Err(f(Violation::new("fixed_depth_builder", "something_from_nothing", "to_bmoc() returned a BMOC although nothing was pushed".to_string())));
      }
      let cells = bc::model_cells("fixed_depth_builder", "builder output", &b).map_err(|v| f(v))?;
      if b.get_depth_max() != c.depth {
        return Err(f(Violation::new("fixed_depth_builder", "wrong_depth_max", format!("depth_max {} instead of {}", b.get_depth_max(), c.depth))));
      }
      if let Some(bad) = cells.iter().find(|x| x.full != c.full) {
        return Err(f(Violation::new("fixed_depth_builder", "wrong_flag", format!("cell {}/{} has flag {} but the builder was created with {}", bad.depth, bad.hash, bad.full, c.full))));
      }
      let got = mb::to_intervals(c.depth, c.depth, &cells);
      let mut want: Vec<Iv> = vec![];
      for &h in &set {
        if let Some(l) = want.last_mut() {
          if l.end == h {
            l.end = h + 1;
            continue;
          }
        }
        want.push(Iv { start: h, end: h + 1, state: if c.full { mb::FULL } else { mb::PARTIAL } });
      }
      if got != want {
        let gs: BTreeSet<u64> = got.iter().flat_map(|i| i.start..i.end.min(i.start + 100000)).collect();
        let missing: Vec<u64> = set.iter().filter(|h| !gs.contains(h)).take(5).copied().collect();
        let extra: Vec<u64> = gs.iter().filter(|h| !set.contains(h)).take(5).copied().collect();
        return Err(f(Violation::new(
          "fixed_depth_builder",
          "wrong_set",
          format!("builder(depth {}, full {}, capacity {}): {} distinct cells pushed, result covers {} leaves; missing e.g. {:?}, extra e.g. {:?}; pushes {:?}..", c.depth, c.full, c.capacity, set.len(), mb::deep_size(&got), missing, extra, &seq[..seq.len().min(24)]),
        )));
      }
    }
  }
  Ok(())
}

/// A builder that is used again after `to_bmoc(&mut self)`.  The first result is the single-use
/// claim (exactly the cells pushed so far).  For the later results the statement can be read in two
/// ways (the cells pushed since the previous call -- what the code does -- or all the cells pushed
/// so far); the check only demands what both readings share: a valid BMOC of the requested flag
/// that covers every cell pushed since the previous call and nothing that was never pushed, and
/// `None` only if nothing was pushed since the previous call.
fn check_reuse(c: &Pushes, seq: &[u64], k: usize) -> Result<(), Violation> {
  let f = |v: Violation| v.fact("depth", c.depth as f64).fact("capacity", c.capacity as f64).fact("full", c.full as u8 as f64).fact("n_pushes", seq.len() as f64).fact("reused", 1.0);
  let r = catch(|| {
    let mut b = BMOCBuilderFixedDepth::with_capacity(c.depth, c.full, c.capacity);
    for &h in &seq[..k] {
      b.push(h);
    }
    let r1 = b.to_bmoc();
    for &h in &seq[k..] {
      b.push(h);
    }
    let r2 = b.to_bmoc();
    let r3 = b.to_bmoc();
    (r1, r2, r3)
  });
  let (r1, r2, r3) = match r {
    Ok(r) => r,
    Err(p) => return Err(f(Violation::new("fixed_depth_builder", "panic", format!("re-used builder(depth {}, full {}, capacity {}), to_bmoc() after {} of the pushes {:?}..: panicked: {}", c.depth, c.full, c.capacity, k, &seq[..seq.len().min(24)], p)))),
  };
  let all: BTreeSet<u64> = seq.iter().copied().collect();
  let parts: [(&str, Option<cdshealpix::nested::bmoc::BMOC>, BTreeSet<u64>, bool); 3] = [
    ("first", r1, seq[..k].iter().copied().collect(), true),
    ("second", r2, seq[k..].iter().copied().collect(), false),
    ("third", r3, BTreeSet::new(), false),
  ];
  for (name, r, since, exact) in parts.iter() {
    match r {
      None => {
        if !since.is_empty() {
          return Err(f(Violation::new("fixed_depth_builder", "nothing_returned", format!("re-used builder: the {} to_bmoc() returned None although {} cells were pushed since the previous call", name, since.len()))));
        }
      }
      Some(b) => {
        if *exact && since.is_empty() {
          return Err(f(Violation::new("fixed_depth_builder", "something_from_nothing", "to_bmoc() returned a BMOC although nothing was pushed".to_string())));
        }
        let cells = bc::model_cells("fixed_depth_builder", "output of a re-used builder", b).map_err(|v| f(v))?;
        if b.get_depth_max() != c.depth {
          return Err(f(Violation::new("fixed_depth_builder", "wrong_depth_max", format!("depth_max {} instead of {}", b.get_depth_max(), c.depth))));
        }
        if let Some(bad) = cells.iter().find(|x| x.full != c.full) {
          return Err(f(Violation::new("fixed_depth_builder", "wrong_flag", format!("re-used builder, {} result: cell {}/{} has flag {} but the builder was created with {}", name, bad.depth, bad.hash, bad.full, c.full))));
        }
        let got = mb::to_intervals(c.depth, c.depth, &cells);
        let covered = |h: u64| got.iter().any(|i| i.start <= h && h < i.end);
        let missing: Vec<u64> = since.iter().filter(|h| !covered(**h)).take(5).copied().collect();
        // leaves covered but never pushed (the pushed sets are small: walk the intervals against the set)
        let mut extra: Vec<u64> = vec![];
        let allowed: &BTreeSet<u64> = if *exact { since } else { &all };
        for i in &got {
          let n_allowed = allowed.range(i.start..i.end).count() as u64;
          if n_allowed != i.end - i.start {
            extra.push((i.start..i.end).find(|h| !allowed.contains(h)).unwrap_or(i.start));
            if extra.len() >= 5 {
              break;
            }
          }
        }
        if !missing.is_empty() || !extra.is_empty() {
          return Err(f(Violation::new(
            "fixed_depth_builder",
            "wrong_set",
            format!("re-used builder(depth {}, full {}, capacity {}), {} to_bmoc() (first call after {} of {} pushes): cells pushed since the previous call but not covered e.g. {:?}; covered but never pushed e.g. {:?}; pushes {:?}..", c.depth, c.full, c.capacity, name, k, seq.len(), missing, extra, &seq[..seq.len().min(24)]),
          )));
        }
      }
    }
  }
  Ok(())
}

/// One very long run of consecutive cells in a single buffer load: the lengths at which the
/// builder has to decide how large a coarse cell the run fills (4^k and the lengths next to it).
#[derive(Clone, Debug, Serialize, Deserialize)]
pub struct LongRun {
  pub depth: u8,
  pub full: bool,
  /// None: `BMOCBuilderFixedDepth::new` (10^7), Some(c): with_capacity(c)
  pub capacity: Option<usize>,
  pub start: u64,
  pub len: u64,
  /// isolated cells pushed after the run
  pub tail: Vec<u64>,
}

fn make_long_run(idx: u64, kmin: u8) -> LongRun {
  let variant = idx % 4;
  let short = ((idx / 4) % 50) as i64 - 2;
  let k = kmin + (idx / 200) as u8;
  let block = 1u64 << (2 * k as u32);
  let len = (block as i64 - short).max(1) as u64;
  let (depth, b) = match variant {
    0 => (k, 0u64),
    1 => (k + 2, 5),
    2 => (29.min(k + 9), 1027),
    _ => (k + 1, 3),
  };
  let start = b * block;
  let tail = if variant >= 1 { vec![start + block + 3, start + block + 9] } else { vec![] };
  LongRun { depth, full: variant != 3, capacity: if variant == 2 { Some(len as usize + 10) } else { None }, start, len, tail }
}

pub fn check_long_run(c: &LongRun, rec: &mut Rec) -> Result<(), Violation> {
  rec.eval();
  rec.class(&format!("log4_len:{}", (c.len as f64).log2().round() as u32 / 2));
  rec.nontrivial(fp_of(&(c.depth, c.start, c.len, &c.tail)));
  rec.sample(|| json!(c));
  let f = |v: Violation| v.fact("depth", c.depth as f64).fact("full", c.full as u8 as f64).fact("n_pushes", c.len as f64);
  let r = catch(|| {
    let mut b = match c.capacity {
      None => BMOCBuilderFixedDepth::new(c.depth, c.full),
      Some(cap) => BMOCBuilderFixedDepth::with_capacity(c.depth, c.full, cap),
    };
    for h in c.start..c.start + c.len {
      b.push(h);
    }
    for &h in &c.tail {
      b.push(h);
    }
    b.to_bmoc()
  });
  let b = match r {
    Ok(Some(b)) => b,
    Ok(None) => return Err(f(Violation::new("fixed_depth_builder", "nothing_returned", format!("to_bmoc() returned None although {} cells were pushed", c.len)))),
    Err(p) => return Err(f(Violation::new("fixed_depth_builder", "panic", format!("builder(depth {}) panicked on the run {}..{}: {}", c.depth, c.start, c.start + c.len, p)))),
  };
  let cells = bc::model_cells("fixed_depth_builder", "builder output", &b).map_err(|v| f(v))?;
  if let Some(bad) = cells.iter().find(|x| x.full != c.full) {
    return Err(f(Violation::new("fixed_depth_builder", "wrong_flag", format!("cell {}/{} has flag {} but the builder was created with {}", bad.depth, bad.hash, bad.full, c.full))));
  }
  let got: Vec<(u64, u64)> = mb::to_intervals(c.depth, c.depth, &cells).iter().map(|i| (i.start, i.end)).collect();
  let mut want: Vec<(u64, u64)> = vec![(c.start, c.start + c.len)];
  for &h in &c.tail {
    let l = want.last_mut().unwrap();
    if h < l.1 {
      continue;
    }
    if l.1 == h {
      l.1 = h + 1;
    } else {
      want.push((h, h + 1));
    }
  }
  if got != want {
    return Err(f(Violation::new(
      "fixed_depth_builder",
      "wrong_set",
      format!("builder(depth {}, full {}, capacity {:?}): pushed the run {}..{} ({} cells = 4^{} {:+}) then {:?}; the result covers the leaf intervals {:?} instead of {:?}", c.depth, c.full, c.capacity, c.start, c.start + c.len, c.len, ((c.len as f64).log2() / 2.0).round(), c.len as i64 - (1i64 << (2 * ((c.len as f64).log2() / 2.0).round() as u32)), c.tail, &got[..got.len().min(6)], want),
    )));
  }
  Ok(())
}

pub fn check_pack(c: &PackCase, rec: &mut Rec) -> Result<(), Violation> {
  rec.eval();
  let s = &c.spec;
  let cells_in = s.mcells();
  let has_sib = mb::has_four_full_siblings(&cells_in);
  let deeper = c.new_depth.map(|d| cells_in.iter().any(|x| x.depth > d)).unwrap_or(false);
  rec.class(match (c.new_depth, c.packing) {
    (None, _) => "pack",
    (Some(_), true) => "lower_packing",
    (Some(_), false) => "lower",
  });
  if has_sib || deeper {
    rec.nontrivial(fp_of(&(s.depth_max, &s.cells, c.new_depth, c.packing)));
  }
  rec.sample(|| json!(c));
  let f = |v: Violation| v.fact("depth_max", s.depth_max as f64).fact("new_depth", c.new_depth.map(|d| d as f64).unwrap_or(-1.0)).fact("packing", c.packing as u8 as f64);
  let mk = || {
    let mut b = BMOCBuilderUnsafe::new(s.depth_max, s.cells.len().max(1));
    for &(d, h, fl) in &s.cells {
      b.push(d, h, fl);
    }
    b
  };
  let iv_in = s.intervals(s.depth_max);
  match c.new_depth {
    None => {
      let r = match catch(|| mk().to_bmoc_packing()) {
        Ok(r) => r,
        Err(p) => return Err(f(Violation::new("pack", "panic", format!("to_bmoc_packing panicked on {:?}: {}", s, p)))),
      };
      let cells = bc::model_cells("pack", "to_bmoc_packing output", &r).map_err(|v| f(v))?;
      if mb::to_intervals(s.depth_max, s.depth_max, &cells) != iv_in {
        return Err(f(Violation::new("pack", "map_changed", format!("to_bmoc_packing changed the cell-to-state map: {:?} -> {:?}", s.cells, cells))));
      }
      if mb::has_four_full_siblings(&cells) {
        return Err(f(Violation::new("pack", "not_packed", format!("to_bmoc_packing left four full siblings: {:?} -> {:?}", s.cells, cells))));
      }
      // the plain builders hand back exactly what was pushed: to_bmoc() as is, to_bmoc_from_unordered()
      // after sorting an input pushed out of order (odd positions first, then the even ones backwards)
      let want_raw: Vec<u64> = s.mcells().iter().map(|c| mb::encode_raw(s.depth_max, *c)).collect();
      let plain = match catch(|| mk().to_bmoc()) {
        Ok(r) => r,
        Err(p) => return Err(f(Violation::new("plain_builder", "panic", format!("to_bmoc panicked on {:?}: {}", s, p)))),
      };
      let unordered = match catch(|| {
        let mut b = BMOCBuilderUnsafe::new(s.depth_max, s.cells.len().max(1));
        for &(d, h, fl) in s.cells.iter().skip(1).step_by(2) {
          b.push(d, h, fl);
        }
        for &(d, h, fl) in s.cells.iter().step_by(2).rev() {
          b.push(d, h, fl);
        }
        b.to_bmoc_from_unordered()
      }) {
        Ok(r) => r,
        Err(p) => return Err(f(Violation::new("plain_builder", "panic", format!("to_bmoc_from_unordered panicked on {:?}: {}", s, p)))),
      };
      for (name, r) in [("to_bmoc", &plain), ("to_bmoc_from_unordered", &unordered)] {
        let got: Vec<u64> = r.entries.iter().copied().collect();
        if got != want_raw || r.get_depth_max() != s.depth_max {
          return Err(f(Violation::new("plain_builder", "entries_changed", format!("{}: pushed {:?}, got the raw entries {:?} (depth_max {})", name, s.cells, &got[..got.len().min(12)], r.get_depth_max()))));
        }
      }
    }
    Some(nd) => {
      let r = if c.packing { catch(|| mk().to_lower_depth_bmoc_packing(nd)) } else { catch(|| mk().to_lower_depth_bmoc(nd)) };
      if nd >= s.depth_max {
        if r.is_ok() {
          return Err(f(Violation::new("lower_depth", "accepts_invalid", format!("lowering a BMOC of depth_max {} to depth {} did not panic", s.depth_max, nd))));
        }
        return Ok(());
      }
      let r = match r {
        Ok(r) => r,
        Err(p) => return Err(f(Violation::new("lower_depth", "panic", format!("lowering {:?} to depth {} panicked: {}", s, nd, p)))),
      };
      let cells = bc::model_cells("lower_depth", "lowered BMOC", &r).map_err(|v| f(v))?;
      if r.get_depth_max() != nd {
        return Err(f(Violation::new("lower_depth", "wrong_depth_max", format!("depth_max {} instead of {}", r.get_depth_max(), nd))));
      }
      let got = mb::to_intervals(nd, nd, &cells);
      // expected map at new_depth: leaf L present iff something below it; full only if all its sub-leaves are full
      let sh = 2 * (s.depth_max - nd) as u32;
      let mut cuts: Vec<u64> = vec![];
      for i in iv_in.iter() {
        cuts.push(i.start >> sh);
        cuts.push((i.end - 1) >> sh);
        cuts.push(((i.end - 1) >> sh) + 1);
        cuts.push((i.start >> sh) + 1);
      }
      for i in got.iter() {
        cuts.push(i.start);
        cuts.push(i.end);
      }
      cuts.sort_unstable();
      cuts.dedup();
      let n_new = mb::n_leaves(nd);
      for &l in cuts.iter().filter(|l| **l < n_new) {
        let (s0, e0) = (l << sh, (l + 1) << sh);
        let mut covered_full = 0u64;
        let mut present = false;
        for i in iv_in.iter() {
          let (a, b) = (i.start.max(s0), i.end.min(e0));
          if a < b {
            present = true;
            if i.state == mb::FULL {
              covered_full += b - a;
            }
          }
        }
        let all_full = covered_full == e0 - s0;
        let st = mb::state_at(&got, l);
        if present != (st != mb::ABSENT) {
          return Err(f(Violation::new("lower_depth", "presence", format!("lowering {:?} to depth {}: cell {} of depth {} is {} in the result but {} in the input", s.cells, nd, l, nd, if st != 0 { "present" } else { "absent" }, if present { "non-empty" } else { "empty" }))));
        }
        if st == mb::FULL && !all_full {
          return Err(f(Violation::new("lower_depth", "full_not_justified", format!("lowering {:?} to depth {}: cell {} is flagged full but was not entirely covered by full cells", s.cells, nd, l))));
        }
      }
      // cells already at depth <= new_depth keep their state (they may be merged with full siblings
      // by the packing variant, which does not change the cell-to-state map)
      for x in cells_in.iter().filter(|x| x.depth <= nd) {
        let (a, b) = mb::leaf_range(nd, x);
        let want = if x.full { mb::FULL } else { mb::PARTIAL };
        let ok = got.iter().any(|i| i.start <= a && b <= i.end && i.state == want);
        if !ok {
          return Err(f(Violation::new("lower_depth", "coarse_cell_changed", format!("lowering {:?} to depth {}: cell {}/{} (flag {}) was already coarse enough but its state changed in the result {:?}", s.cells, nd, x.depth, x.hash, x.full, cells))));
        }
      }
      if c.packing && mb::has_four_full_siblings(&cells) {
        return Err(f(Violation::new("lower_depth", "not_packed", format!("to_lower_depth_bmoc_packing left four full siblings: {:?}", cells))));
      }
    }
  }
  Ok(())
}

fn strat_pushes() -> BoxedStrategy<Pushes> {
  (prop_oneof![3 => 0u8..=3, 2 => 4u8..=12, 1 => 13u8..=29], any::<bool>(), prop::sample::select(vec![1usize, 2, 3, 4, 5, 7, 8, 16, 17, 63, 64, 10_000]))
    .prop_flat_map(|(depth, full, capacity)| {
      let n = 12u64 << (2 * depth as u32);
      let start = prop_oneof![
        3 => (0u64..n),
        3 => (0u32..=(depth as u32).min(5), 0u64..n, -2i64..=2).prop_map(move |(k, a, off)| (((a >> (2 * k)) << (2 * k)) as i64 + off).max(0).min(n as i64 - 1) as u64),
        1 => Just(0u64),
        1 => Just(n - 1),
      ];
      let len = prop_oneof![
        3 => (0u32..=4, -1i32..=1).prop_map(|(k, e)| ((1i32 << (2 * k)) + e).max(1) as u32),
        2 => 5u32..=130,
        1 => 1u32..=4,
      ];
      let seg = (0u8..4, start, len).prop_map(|(kind, start, len)| Seg { kind, start, len });
      (prop::collection::vec(seg, 0..14), prop::collection::vec((0usize..14, any::<bool>()), 0..4), (prop::bool::weighted(0.2), 0u16..=1000)).prop_map(move |(mut segs, reps, reuse)| {
        // re-push earlier runs (distant duplicates)
        for (k, rev) in reps {
          if !segs.is_empty() {
            let mut s = segs[k % segs.len()].clone();
            if rev && s.kind <= 1 {
              s.kind = 1 - s.kind;
            }
            segs.push(s);
          }
        }
        Pushes { depth, full, capacity, segs, reuse: if reuse.0 { Some(reuse.1) } else { None } }
      })
    })
    .boxed()
}

fn strat_pack() -> BoxedStrategy<PackCase> {
  (bc::depth_max_strategy(), any::<bool>(), 0u8..3)
    .prop_flat_map(|(dm, mixed, mode)| {
      let nd = prop_oneof![4 => (0u8..=dm.saturating_sub(1)), 1 => Just(dm), 1 => (dm..=29u8)];
      (bc::random_spec(dm, mixed), nd).prop_map(move |(spec, nd)| match mode {
        0 => PackCase { spec, new_depth: None, packing: true },
        1 => PackCase { spec, new_depth: Some(nd), packing: true },
        // the non-packing lowering documents a packed input
        _ => {
          let packed = pack_model(&spec);
          PackCase { spec: packed, new_depth: Some(nd), packing: false }
        }
      })
    })
    .boxed()
}

/// model packing of a mixed-flag spec (merge groups of four full siblings repeatedly)
fn pack_model(s: &Spec) -> Spec {
  let mut cells = s.mcells();
  loop {
    let mut out = vec![];
    let mut changed = false;
    let mut i = 0;
    while i < cells.len() {
      if i + 3 < cells.len() && mb::has_four_full_siblings(&cells[i..i + 4]) {
        out.push(mb::MCell { depth: cells[i].depth - 1, hash: cells[i].hash >> 2, full: true });
        i += 4;
        changed = true;
      } else {
        out.push(cells[i]);
        i += 1;
      }
    }
    cells = out;
    if !changed {
      break;
    }
  }
  Spec::from_mcells(s.depth_max, &cells, &format!("{}+model_packed", s.shape))
}

pub fn run(ctx: &Ctx, rep: &mut Report) {
  ctx.run_random(rep, "fixed_depth_builder", strat_pushes, ctx.tier.pick(300_000, 15_000_000), check_pushes);
  // k = 5..=11 (quick) / 5..=12 (thorough; 4^12 cells exceed the default capacity: several loads)
  let kmax = ctx.tier.pick(11u64, 12u64);
  ctx.run_enum(rep, "long_runs", 200 * (kmax - 4), |i| make_long_run(i, 5), check_long_run);
  ctx.run_random(rep, "pack_and_lower", strat_pack, ctx.tier.pick(600_000, 30_000_000), check_pack);
}

pub fn replay(ctx: &Ctx, rep: &mut Report, section: &str, case: &Value) -> Result<(), String> {
  match section {
    "fixed_depth_builder" => ctx.run_one(rep, section, &super::de::<Pushes>(case)?, check_pushes),
    "long_runs" => ctx.run_one(rep, section, &super::de::<LongRun>(case)?, check_long_run),
    _ => ctx.run_one(rep, section, &super::de::<PackCase>(case)?, check_pack),
  }
  Ok(())
}
