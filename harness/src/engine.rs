//! Search engine shared by all properties: seeded multi-worker proptest runners, exhaustive
//! enumerators, recorders for the evidence file, known-findings matching, replay files.

use proptest::strategy::Strategy;
use proptest::test_runner::{Config, RngSeed, TestCaseError, TestError, TestRunner};
use serde_json::{json, Map, Value};
use std::cell::{Cell as StdCell, RefCell};
use std::collections::{BTreeMap, HashSet};
use std::fmt::Debug;
use std::panic::{catch_unwind, AssertUnwindSafe};
use std::sync::atomic::{AtomicBool, AtomicU64, Ordering};
use std::sync::Mutex;
use std::time::Instant;

#[derive(Clone, Copy, Debug, PartialEq, Eq)]
pub enum Tier {
  Quick,
  Thorough,
}

impl Tier {
  pub fn name(&self) -> &'static str {
    match self {
      Tier::Quick => "quick",
      Tier::Thorough => "thorough",
    }
  }
  /// `q` for quick, `t` for thorough.
  pub fn pick<T>(&self, q: T, t: T) -> T {
    match self {
      Tier::Quick => q,
      Tier::Thorough => t,
    }
  }
}

// ---------------------------------------------------------------------------------------------
// Build profile of this binary (set once at start-up by the command line)

static PROFILE_CHK: AtomicBool = AtomicBool::new(false);

pub fn set_profile(name: &str) {
  PROFILE_CHK.store(name == "chk", Ordering::Relaxed);
}

/// 1.0 in the build with debug assertions and overflow checks, 0.0 otherwise (used as a fact of
/// violations that only exist in that build).
pub fn chk_fact() -> f64 {
  if PROFILE_CHK.load(Ordering::Relaxed) { 1.0 } else { 0.0 }
}

// ---------------------------------------------------------------------------------------------
// Panic capture

thread_local! {
  static QUIET: StdCell<bool> = StdCell::new(false);
  static LAST_PANIC: RefCell<String> = RefCell::new(String::new());
}

pub fn install_panic_hook() {
  let default = std::panic::take_hook();
  std::panic::set_hook(Box::new(move |info| {
    let quiet = QUIET.with(|q| q.get());
    if quiet {
      let msg = if let Some(s) = info.payload().downcast_ref::<&str>() {
        s.to_string()
      } else if let Some(s) = info.payload().downcast_ref::<String>() {
        s.clone()
      } else {
        "<non-string panic>".to_string()
      };
      let loc = info.location().map(|l| format!("{}:{}", l.file(), l.line())).unwrap_or_default();
      LAST_PANIC.with(|p| *p.borrow_mut() = format!("{} @ {}", msg, loc));
    } else {
      default(info);
    }
  }));
}

/// Run `f`, turning a panic into `Err(message @ file:line)`.
pub fn catch<T>(f: impl FnOnce() -> T) -> Result<T, String> {
  let prev = QUIET.with(|q| q.replace(true));
  let r = catch_unwind(AssertUnwindSafe(f));
  QUIET.with(|q| q.set(prev));
  match r {
    Ok(v) => Ok(v),
    Err(_) => Err(LAST_PANIC.with(|p| p.borrow().clone())),
  }
}

// ---------------------------------------------------------------------------------------------
// Violations and known findings

#[derive(Clone, Debug)]
pub struct Violation {
  /// sub-check name, e.g. "hash_contains"
  pub check: String,
  /// kind of failure, e.g. "not_contained", "panic", "out_of_range"
  pub kind: String,
  /// human readable detail
  pub detail: String,
  /// numeric facts about the failing input, used to match known findings
  pub facts: BTreeMap<String, f64>,
}

impl Violation {
  pub fn new(check: &str, kind: &str, detail: String) -> Violation {
    Violation { check: check.to_string(), kind: kind.to_string(), detail, facts: BTreeMap::new() }
  }
  pub fn fact(mut self, k: &str, v: f64) -> Violation {
    self.facts.insert(k.to_string(), v);
    self
  }
}

#[derive(Clone, Debug)]
pub struct KnownFinding {
  pub id: String,
  pub property: String,
  pub status: String,
  pub what: String,
  pub check: String,
  pub kind: Option<String>,
  /// list of (field, op, value)
  pub preds: Vec<(String, String, f64)>,
}

impl KnownFinding {
  pub fn matches(&self, prop: &str, v: &Violation) -> bool {
    if self.status != "open" || self.property != prop || self.check != v.check {
      return false;
    }
    if let Some(k) = &self.kind {
      if *k != v.kind {
        return false;
      }
    }
    for (f, op, val) in &self.preds {
      let x = match v.facts.get(f) {
        Some(x) => *x,
        None => return false,
      };
      let ok = match op.as_str() {
        ">=" => x >= *val,
        "<=" => x <= *val,
        ">" => x > *val,
        "<" => x < *val,
        "==" => x == *val,
        "!=" => x != *val,
        _ => false,
      };
      if !ok {
        return false;
      }
    }
    true
  }
}

pub fn load_known_findings(path: &str) -> Result<Vec<KnownFinding>, String> {
  let txt = match std::fs::read_to_string(path) {
    Ok(t) => t,
    Err(_) => return Ok(vec![]),
  };
  let v: Value = serde_json::from_str(&txt).map_err(|e| format!("{}: {}", path, e))?;
  let arr = v.get("findings").and_then(|a| a.as_array()).ok_or_else(|| format!("{}: no 'findings' array", path))?;
  let mut out = vec![];
  for e in arr {
    let s = |k: &str| e.get(k).and_then(|x| x.as_str()).map(|x| x.to_string());
    let sig = e.get("signature").cloned().unwrap_or(json!({}));
    let mut preds = vec![];
    if let Some(ps) = sig.get("where").and_then(|x| x.as_array()) {
      for p in ps {
        let f = p.get("field").and_then(|x| x.as_str()).ok_or("predicate without field")?;
        let op = p.get("op").and_then(|x| x.as_str()).ok_or("predicate without op")?;
        let val = p.get("value").and_then(|x| x.as_f64()).ok_or("predicate without value")?;
        if !["<", "<=", ">", ">=", "==", "!="].contains(&op) {
          return Err(format!("unknown predicate operator {}", op));
        }
        preds.push((f.to_string(), op.to_string(), val));
      }
    }
    out.push(KnownFinding {
      id: s("id").ok_or("finding without id")?,
      property: s("property").ok_or("finding without property")?,
      status: s("status").ok_or("finding without status")?,
      what: s("what").unwrap_or_default(),
      check: sig.get("check").and_then(|x| x.as_str()).unwrap_or("").to_string(),
      kind: sig.get("kind").and_then(|x| x.as_str()).map(|x| x.to_string()),
      preds,
    });
  }
  Ok(out)
}

/// Known findings for code that runs outside of a `Ctx` (the fuzz targets): loaded once from
/// `$VERIF_ROOT/known_findings.json`.
pub fn is_known(prop: &str, v: &Violation) -> bool {
  use std::sync::OnceLock;
  static K: OnceLock<Vec<KnownFinding>> = OnceLock::new();
  let k = K.get_or_init(|| {
    let root = std::env::var("VERIF_ROOT").unwrap_or_else(|_| "/verif".to_string());
    load_known_findings(&format!("{}/known_findings.json", root)).unwrap_or_default()
  });
  k.iter().any(|f| f.matches(prop, v))
}

/// Used by the fuzz targets: panics (= libFuzzer crash) on a violation of `prop` which is not a
/// known finding; does nothing if the environment variable HPXV_FUZZ_PROP names another property.
pub fn fuzz_verdict(prop: &str, r: Result<(), Violation>) {
  if let Ok(only) = std::env::var("HPXV_FUZZ_PROP") {
    if !only.is_empty() && only != prop {
      return;
    }
  }
  if let Err(v) = r {
    if !is_known(prop, &v) {
      panic!("{} violation: {}/{}: {}", prop, v.check, v.kind, v.detail);
    }
  }
}

pub fn fuzz_wants(prop: &str) -> bool {
  match std::env::var("HPXV_FUZZ_PROP") {
    Ok(only) => only.is_empty() || only == prop,
    Err(_) => true,
  }
}

// ---------------------------------------------------------------------------------------------
// Recorder (one per worker, merged afterwards)

const FP_CAP: usize = 1 << 20;

#[derive(Default)]
pub struct Rec {
  pub evaluations: u64,
  pub fps: HashSet<u64>,
  pub fp_overflow: u64,
  /// non-trivial cases counted in bulk by an exhaustive enumerator (distinct by construction)
  pub bulk_nontrivial: u64,
  pub classes: BTreeMap<String, u64>,
  pub samples: Vec<Value>,
  pub samples_seen: u64,
  pub known_hits: BTreeMap<String, u64>,
  pub metrics_max: BTreeMap<String, f64>,
  pub metrics_min: BTreeMap<String, f64>,
  pub frozen: bool,
  sample_stride: u64,
}

impl Rec {
  pub fn new() -> Rec {
    Rec { sample_stride: 1, ..Default::default() }
  }
  /// one executed case (an input on which the oracle was evaluated)
  pub fn eval(&mut self) {
    if !self.frozen {
      self.evaluations += 1;
    }
  }
  pub fn evals(&mut self, k: u64) {
    if !self.frozen {
      self.evaluations += k;
    }
  }
  pub fn class(&mut self, name: &str) {
    if !self.frozen {
      *self.classes.entry(name.to_string()).or_insert(0) += 1;
    }
  }
  pub fn class_n(&mut self, name: &str, k: u64) {
    if !self.frozen {
      *self.classes.entry(name.to_string()).or_insert(0) += k;
    }
  }
  /// a case that is non-trivial by the property's stated rule; `fp` identifies it
  pub fn nontrivial(&mut self, fp: u64) {
    if self.frozen {
      return;
    }
    if self.fps.len() < FP_CAP {
      self.fps.insert(fp);
    } else if !self.fps.contains(&fp) {
      self.fp_overflow += 1;
    }
  }
  /// `k` distinct non-trivial cases of an exhaustive block (distinct by construction)
  pub fn nontrivial_bulk(&mut self, k: u64) {
    if !self.frozen {
      self.bulk_nontrivial += k;
    }
  }
  pub fn metric_max(&mut self, name: &str, v: f64) {
    if self.frozen || v.is_nan() {
      return;
    }
    let e = self.metrics_max.entry(name.to_string()).or_insert(f64::NEG_INFINITY);
    if v > *e {
      *e = v;
    }
  }
  pub fn metric_min(&mut self, name: &str, v: f64) {
    if self.frozen || v.is_nan() {
      return;
    }
    let e = self.metrics_min.entry(name.to_string()).or_insert(f64::INFINITY);
    if v < *e {
      *e = v;
    }
  }
  /// offer a case as a sample (kept: the first two, then a thinning stride)
  pub fn sample(&mut self, mk: impl FnOnce() -> Value) {
    if self.frozen {
      return;
    }
    self.samples_seen += 1;
    if self.samples.len() < 2 || (self.samples_seen % self.sample_stride == 0 && self.samples.len() < 6) {
      self.samples.push(mk());
      if self.samples.len() >= 2 {
        self.sample_stride = self.sample_stride.saturating_mul(7).max(7);
      }
    }
  }
  pub fn merge(&mut self, o: Rec) {
    self.evaluations += o.evaluations;
    for fp in o.fps {
      if self.fps.len() < 4 * FP_CAP {
        self.fps.insert(fp);
      } else {
        self.fp_overflow += 1;
      }
    }
    self.fp_overflow += o.fp_overflow;
    self.bulk_nontrivial += o.bulk_nontrivial;
    for (k, v) in o.classes {
      *self.classes.entry(k).or_insert(0) += v;
    }
    for s in o.samples {
      if self.samples.len() < 12 {
        self.samples.push(s);
      }
    }
    for (k, v) in o.known_hits {
      *self.known_hits.entry(k).or_insert(0) += v;
    }
    for (k, v) in o.metrics_max {
      let e = self.metrics_max.entry(k).or_insert(f64::NEG_INFINITY);
      if v > *e {
        *e = v;
      }
    }
    for (k, v) in o.metrics_min {
      let e = self.metrics_min.entry(k).or_insert(f64::INFINITY);
      if v < *e {
        *e = v;
      }
    }
  }
}

pub fn fp_of<T: std::hash::Hash>(t: &T) -> u64 {
  use std::hash::Hasher;
  let mut h = std::collections::hash_map::DefaultHasher::new();
  t.hash(&mut h);
  h.finish()
}

pub fn fp_f64s(v: &[f64]) -> u64 {
  let bits: Vec<u64> = v.iter().map(|x| x.to_bits()).collect();
  fp_of(&bits)
}

// ---------------------------------------------------------------------------------------------
// Context and report

pub struct Ctx {
  pub prop: String,
  pub tier: Tier,
  pub seed: u64,
  pub profile: String,
  pub workers: usize,
  pub known: Vec<KnownFinding>,
  pub strict: bool, // replay mode: known findings are not tolerated silently, they are still reported as KNOWN
  pub start: Instant,
  pub replay_dir: String,
  /// maximum number of shrink iterations of the proptest runners (lowered by sections whose cases
  /// are expensive, e.g. one process per case)
  pub shrink_iters: std::sync::atomic::AtomicU32,
}

#[derive(Debug)]
pub struct FoundViolation {
  pub section: String,
  pub violation: Violation,
  pub case: Value,
  pub replay_path: String,
}

pub struct Section {
  pub name: String,
  pub exhaustive: bool,
  pub rec: Rec,
  pub wall_s: f64,
  pub planned: u64,
}

#[derive(Default)]
pub struct Report {
  pub sections: Vec<Section>,
  pub violations: Vec<FoundViolation>,
  pub notes: Vec<String>,
}

impl Ctx {
  pub fn known_match(&self, v: &Violation) -> Option<&KnownFinding> {
    self.known.iter().find(|k| k.matches(&self.prop, v))
  }

  fn write_replay(&self, section: &str, v: &Violation, case: &Value) -> String {
    let body = json!({
      "property": self.prop,
      "section": section,
      "check": v.check,
      "kind": v.kind,
      "detail": v.detail,
      "facts": v.facts,
      "profile": self.profile,
      "seed": self.seed,
      "case": case,
    });
    let txt = serde_json::to_string_pretty(&body).unwrap();
    let fp = fp_of(&format!("{}|{}|{}", section, v.check, serde_json::to_string(case).unwrap()));
    let _ = std::fs::create_dir_all(&self.replay_dir);
    let path = format!("{}/{}-{}-{:016x}.json", self.replay_dir, self.prop, section, fp);
    let _ = std::fs::write(&path, txt);
    path
  }

  /// Random search: `cases` generated cases split over the workers, each worker owning a proptest
  /// runner seeded from (seed, section name, worker).  The first failure of the lowest worker is
  /// shrunk and reported.
  pub fn run_random<C, S, M, F>(&self, rep: &mut Report, name: &str, mk_strat: M, cases: u64, check: F)
  where
    C: Debug + Clone + serde::Serialize + Send,
    S: Strategy<Value = C>,
    M: Fn() -> S + Sync,
    F: Fn(&C, &mut Rec) -> Result<(), Violation> + Sync,
  {
    let t0 = Instant::now();
    let workers = self.workers.max(1);
    let per = (cases + workers as u64 - 1) / workers as u64;
    let results: Mutex<Vec<(usize, Rec, Option<(Value, Violation)>)>> = Mutex::new(vec![]);
    let stop = AtomicBool::new(false);
    std::thread::scope(|sc| {
      for w in 0..workers {
        let mk_strat = &mk_strat;
        let check = &check;
        let results = &results;
        let stop = &stop;
        sc.spawn(move || {
          let strat = mk_strat();
          let s0 = fp_of(&(self.seed, name, w as u64, &self.profile));
          let cfg = Config {
            cases: per as u32,
            failure_persistence: None,
            rng_seed: RngSeed::Fixed(s0),
            max_shrink_iters: self.shrink_iters.load(Ordering::Relaxed),
            max_global_rejects: 1 << 20,
            max_local_rejects: 1 << 16,
            ..Config::default()
          };
          let mut runner = TestRunner::new(cfg);
          let rec = RefCell::new(Rec::new());
          let first_violation: RefCell<Option<(C, Violation)>> = RefCell::new(None);
          let res = runner.run(&strat, |case| {
            if stop.load(Ordering::Relaxed) && !rec.borrow().frozen {
              // another worker already failed: finish quickly (counted cases stay counted)
              return Ok(());
            }
            let mut r = rec.borrow_mut();
            let out = catch(|| check(&case, &mut r));
            let out = match out {
              Ok(o) => o,
              Err(p) => Err(Violation::new("harness", "harness_panic", format!("the oracle itself panicked: {}", p))),
            };
            match out {
              Ok(()) => Ok(()),
              Err(v) => {
                if let Some(k) = self.known_match(&v) {
                  if !r.frozen {
                    *r.known_hits.entry(k.id.clone()).or_insert(0) += 1;
                  }
                  Ok(())
                } else {
                  r.frozen = true; // stop counting: proptest now re-runs the closure to shrink
                  stop.store(true, Ordering::Relaxed);
                  if first_violation.borrow().is_none() {
                    *first_violation.borrow_mut() = Some((case.clone(), v.clone()));
                  }
                  Err(TestCaseError::fail(format!("{}/{}: {}", v.check, v.kind, v.detail)))
                }
              }
            }
          });
          let mut rec = rec.into_inner();
          let fail = match res {
            Ok(()) => None,
            Err(TestError::Fail(_, minimal)) => {
              // re-run the oracle on the minimal case to get its own violation record
              let mut scratch = Rec::new();
              scratch.frozen = true;
              let mut reported = minimal.clone();
              let v = match catch(|| check(&minimal, &mut scratch)) {
                Ok(Err(v)) => v,
                Ok(Ok(())) => {
                  // the value proptest handed back does not fail (can happen with flat-mapped
                  // strategies when shrinking is cut short): fall back to the first failing case
                  let orig = first_violation.borrow().clone();
                  match orig {
                    Some((c0, v0)) => match catch(|| check(&c0, &mut scratch)) {
                      Ok(Err(v)) => {
                        reported = c0;
                        v
                      }
                      _ => Violation::new("harness", "flaky", format!("a case failed once and passed when re-run; first failure was {}/{}: {}", v0.check, v0.kind, v0.detail)),
                    },
                    None => Violation::new("harness", "flaky", "minimal case passed when re-run".to_string()),
                  }
                }
                Err(p) => Violation::new("harness", "harness_panic", p),
              };
              let cj = serde_json::to_value(&reported).unwrap_or(json!(format!("{:?}", reported)));
              Some((cj, v))
            }
            Err(TestError::Abort(r)) => Some((Value::Null, Violation::new("harness", "abort", format!("proptest aborted: {}", r)))),
          };
          rec.frozen = false;
          results.lock().unwrap().push((w, rec, fail));
        });
      }
    });
    let mut results = results.into_inner().unwrap();
    results.sort_by_key(|r| r.0);
    let mut total = Rec::new();
    let mut first_fail: Option<(Value, Violation)> = None;
    for (_, rec, fail) in results {
      total.merge(rec);
      if first_fail.is_none() {
        if let Some(f) = fail {
          first_fail = Some(f);
        }
      }
    }
    if let Some((cj, v)) = first_fail {
      let path = self.write_replay(name, &v, &cj);
      rep.violations.push(FoundViolation { section: name.to_string(), violation: v, case: cj, replay_path: path });
    }
    rep.sections.push(Section { name: name.to_string(), exhaustive: false, rec: total, wall_s: t0.elapsed().as_secs_f64(), planned: cases });
  }

  /// Exhaustive enumeration of the index space `0..total`, split over the workers in
  /// contiguous blocks.  The failure with the smallest index is reported.
  pub fn run_enum<C, M, F>(&self, rep: &mut Report, name: &str, total: u64, make: M, check: F)
  where
    C: Debug + Clone + serde::Serialize + Send,
    M: Fn(u64) -> C + Sync,
    F: Fn(&C, &mut Rec) -> Result<(), Violation> + Sync,
  {
    let t0 = Instant::now();
    let workers = self.workers.max(1) as u64;
    let next = AtomicU64::new(0);
    let block = ((total / (workers * 16)).max(1)).min(1 << 16);
    let min_fail = AtomicU64::new(u64::MAX);
    let results: Mutex<Vec<(Rec, Option<(u64, C, Violation)>)>> = Mutex::new(vec![]);
    std::thread::scope(|sc| {
      for _ in 0..workers {
        let make = &make;
        let check = &check;
        let next = &next;
        let min_fail = &min_fail;
        let results = &results;
        sc.spawn(move || {
          let mut rec = Rec::new();
          let mut fail: Option<(u64, C, Violation)> = None;
          'outer: loop {
            let s = next.fetch_add(block, Ordering::Relaxed);
            if s >= total {
              break;
            }
            let e = (s + block).min(total);
            for idx in s..e {
              if idx > min_fail.load(Ordering::Relaxed) {
                break 'outer;
              }
              let case = make(idx);
              let out = match catch(|| check(&case, &mut rec)) {
                Ok(o) => o,
                Err(p) => Err(Violation::new("harness", "harness_panic", format!("the oracle itself panicked: {}", p))),
              };
              if let Err(v) = out {
                if let Some(k) = self.known_match(&v) {
                  *rec.known_hits.entry(k.id.clone()).or_insert(0) += 1;
                } else {
                  min_fail.fetch_min(idx, Ordering::Relaxed);
                  fail = Some((idx, case, v));
                  break 'outer;
                }
              }
            }
          }
          results.lock().unwrap().push((rec, fail));
        });
      }
    });
    let mut total_rec = Rec::new();
    let mut best: Option<(u64, C, Violation)> = None;
    for (rec, fail) in results.into_inner().unwrap() {
      total_rec.merge(rec);
      if let Some(f) = fail {
        if best.as_ref().map(|b| f.0 < b.0).unwrap_or(true) {
          best = Some(f);
        }
      }
    }
    let complete = best.is_none();
    if let Some((_, case, v)) = best {
      let cj = serde_json::to_value(&case).unwrap_or(json!(format!("{:?}", case)));
      let path = self.write_replay(name, &v, &cj);
      rep.violations.push(FoundViolation { section: name.to_string(), violation: v, case: cj, replay_path: path });
    }
    rep.sections.push(Section { name: name.to_string(), exhaustive: complete, rec: total_rec, wall_s: t0.elapsed().as_secs_f64(), planned: total });
  }

  /// Replay one case (plain oracle, no generator).
  pub fn run_one<C, F>(&self, rep: &mut Report, name: &str, case: &C, check: F)
  where
    C: Debug + Clone + serde::Serialize,
    F: Fn(&C, &mut Rec) -> Result<(), Violation>,
  {
    let t0 = Instant::now();
    let mut rec = Rec::new();
    let out = match catch(|| check(case, &mut rec)) {
      Ok(o) => o,
      Err(p) => Err(Violation::new("harness", "harness_panic", format!("the oracle itself panicked: {}", p))),
    };
    if let Err(v) = out {
      if let Some(k) = self.known_match(&v) {
        *rec.known_hits.entry(k.id.clone()).or_insert(0) += 1;
      } else {
        let cj = serde_json::to_value(case).unwrap_or(json!(format!("{:?}", case)));
        let path = self.write_replay(name, &v, &cj);
        rep.violations.push(FoundViolation { section: name.to_string(), violation: v, case: cj, replay_path: path });
      }
    }
    rep.sections.push(Section { name: name.to_string(), exhaustive: false, rec, wall_s: t0.elapsed().as_secs_f64(), planned: 1 });
  }
}

// ---------------------------------------------------------------------------------------------
// Evidence

pub struct PropMeta {
  pub id: &'static str,
  pub rule: &'static str,
  pub assumptions: Vec<String>,
}

fn f64_json(v: f64) -> Value {
  if v.is_finite() {
    json!(v)
  } else {
    json!(format!("{}", v))
  }
}

/// Evidence "part" of one run (one build profile).  Parts are merged by `merge_parts`.
pub fn evidence_part(ctx: &Ctx, meta: &PropMeta, rep: &Report) -> Value {
  let mut evaluations = 0u64;
  let mut all_fps: HashSet<u64> = HashSet::new();
  let mut overflow = 0u64;
  let mut bulk = 0u64;
  let mut classes: BTreeMap<String, u64> = BTreeMap::new();
  let mut samples: Vec<Value> = vec![];
  let mut known: BTreeMap<String, u64> = BTreeMap::new();
  let mut sections = vec![];
  let mut exhaustive_subspaces = vec![];
  let mut mmax: BTreeMap<String, f64> = BTreeMap::new();
  let mut mmin: BTreeMap<String, f64> = BTreeMap::new();
  for s in &rep.sections {
    evaluations += s.rec.evaluations;
    for fp in &s.rec.fps {
      all_fps.insert(fp_of(&(fp, &s.name, &ctx.profile)));
    }
    overflow += s.rec.fp_overflow;
    bulk += s.rec.bulk_nontrivial;
    for (k, v) in &s.rec.classes {
      *classes.entry(format!("{}:{}", s.name, k)).or_insert(0) += v;
    }
    for (i, smp) in s.rec.samples.iter().enumerate() {
      if i < 3 {
        samples.push(json!({"section": s.name, "profile": ctx.profile, "case": smp}));
      }
    }
    for (k, v) in &s.rec.known_hits {
      *known.entry(k.clone()).or_insert(0) += v;
    }
    for (k, v) in &s.rec.metrics_max {
      let e = mmax.entry(format!("{}:{}", s.name, k)).or_insert(f64::NEG_INFINITY);
      if *v > *e {
        *e = *v;
      }
    }
    for (k, v) in &s.rec.metrics_min {
      let e = mmin.entry(format!("{}:{}", s.name, k)).or_insert(f64::INFINITY);
      if *v < *e {
        *e = *v;
      }
    }
    if s.exhaustive {
      exhaustive_subspaces.push(json!({"section": s.name, "size": s.planned}));
    }
    sections.push(json!({
      "name": s.name,
      "planned": s.planned,
      "evaluations": s.rec.evaluations,
      "distinct_nontrivial": s.rec.fps.len() as u64 + s.rec.bulk_nontrivial,
      "exhaustive": s.exhaustive,
      "wall_s": (s.wall_s * 1000.0).round() / 1000.0,
    }));
  }
  let excluded_known: u64 = known.values().sum();
  let viol: Vec<Value> = rep
    .violations
    .iter()
    .map(|v| json!({"section": v.section, "check": v.violation.check, "kind": v.violation.kind, "detail": v.violation.detail, "replay": v.replay_path}))
    .collect();
  let mm: Map<String, Value> = mmax.iter().map(|(k, v)| (k.clone(), f64_json(*v))).collect();
  let mn: Map<String, Value> = mmin.iter().map(|(k, v)| (k.clone(), f64_json(*v))).collect();
  json!({
    "property_id": meta.id,
    "tier": ctx.tier.name(),
    "seed": ctx.seed,
    "profile": ctx.profile,
    "evaluations": evaluations,
    "distinct_nontrivial": all_fps.len() as u64 + bulk,
    "distinct_nontrivial_is_lower_bound": overflow > 0,
    "rule": meta.rule,
    "samples": samples,
    "classes": classes,
    "sections": sections,
    "exhaustive_subspaces": exhaustive_subspaces,
    "known_findings_hit": known,
    "excluded_known": excluded_known,
    "metrics_max": mm,
    "metrics_min": mn,
    "violations": viol,
    "notes": rep.notes,
    "assumptions": meta.assumptions,
    "wall_s": ctx.start.elapsed().as_secs_f64(),
  })
}

/// Merge the parts (one per build profile) into the final evidence file.
pub fn merge_parts(parts: &[Value]) -> Value {
  let p0 = &parts[0];
  let mut evaluations = 0u64;
  let mut distinct = 0u64;
  let mut wall = 0.0;
  let mut samples = vec![];
  let mut classes = Map::new();
  let mut sections = vec![];
  let mut exh = vec![];
  let mut known: BTreeMap<String, u64> = BTreeMap::new();
  let mut excluded = 0u64;
  let mut mm = Map::new();
  let mut mn = Map::new();
  let mut viol = vec![];
  let mut notes = vec![];
  let mut profiles = vec![];
  let mut lower = false;
  for p in parts {
    let prof = p["profile"].as_str().unwrap_or("?").to_string();
    profiles.push(json!(prof));
    evaluations += p["evaluations"].as_u64().unwrap_or(0);
    distinct += p["distinct_nontrivial"].as_u64().unwrap_or(0);
    lower |= p["distinct_nontrivial_is_lower_bound"].as_bool().unwrap_or(false);
    wall += p["wall_s"].as_f64().unwrap_or(0.0);
    for s in p["samples"].as_array().cloned().unwrap_or_default() {
      if samples.len() < 24 {
        samples.push(s);
      }
    }
    for (k, v) in p["classes"].as_object().cloned().unwrap_or_default() {
      classes.insert(format!("{}:{}", prof, k), v);
    }
    for s in p["sections"].as_array().cloned().unwrap_or_default() {
      let mut s = s;
      s["profile"] = json!(prof);
      sections.push(s);
    }
    for s in p["exhaustive_subspaces"].as_array().cloned().unwrap_or_default() {
      let mut s = s;
      s["profile"] = json!(prof);
      exh.push(s);
    }
    for (k, v) in p["known_findings_hit"].as_object().cloned().unwrap_or_default() {
      *known.entry(k).or_insert(0) += v.as_u64().unwrap_or(0);
    }
    excluded += p["excluded_known"].as_u64().unwrap_or(0);
    for (k, v) in p["metrics_max"].as_object().cloned().unwrap_or_default() {
      mm.insert(format!("{}:{}", prof, k), v);
    }
    for (k, v) in p["metrics_min"].as_object().cloned().unwrap_or_default() {
      mn.insert(format!("{}:{}", prof, k), v);
    }
    for v in p["violations"].as_array().cloned().unwrap_or_default() {
      viol.push(v);
    }
    for v in p["notes"].as_array().cloned().unwrap_or_default() {
      notes.push(v);
    }
  }
  let rule = format!(
    "{} -- distinct_nontrivial counts distinct fingerprints of (case, section, build profile) among the cases satisfying that rule{}",
    p0["rule"].as_str().unwrap_or(""),
    if lower { " (fingerprint set capped: lower bound)" } else { "" }
  );
  json!({
    "property_id": p0["property_id"],
    "tier": p0["tier"],
    "seed": p0["seed"],
    "level": "exploration",
    "coverage": {
      "evaluations": evaluations,
      "distinct_nontrivial": distinct,
      "rule": rule,
      "samples": samples,
      "exhaustive": false,
      "exhaustive_subspaces": exh,
      "classes": classes,
      "sections": sections,
      "profiles": profiles,
      "known_findings_hit": known,
      "excluded_known": excluded,
      "metrics_max": mm,
      "metrics_min": mn,
      "violation_list": viol,
      "notes": notes,
    },
    "assumptions": p0["assumptions"],
    "wall_s": wall,
    "violations": viol.len(),
  })
}
