//! Shared generators (DESIGN.md §3).  Every random choice is a proptest strategy so that failures
//! shrink and a run is a pure function of the seed.

use crate::model::geom::{self, nudge, unproj_ref, HALF_PI, TWO_PI};
use crate::model::lattice::{self as lat, Cell};
use proptest::prelude::*;
use serde::{Deserialize, Serialize};
use std::f64::consts::PI;

pub const LAT_OF_SQUARE_CELL: f64 = 0.399_340_199_478_977_75;

#[derive(Clone, Debug, Serialize, Deserialize)]
pub struct Pos {
  pub lon: f64,
  pub lat: f64,
  /// generator class: "uniform", "turns", "seam", "lattice", "pole"
  pub class: String,
}

impl Pos {
  pub fn new(lon: f64, lat: f64, class: &str) -> Pos {
    Pos { lon, lat: lat.max(-HALF_PI).min(HALF_PI), class: class.to_string() }
  }
  pub fn is_special(&self) -> bool {
    self.class != "uniform"
  }
}

/// depth 0..=29 with weights on {0,1,2}, {26..29} and the z-order class edges {8,9,16,17}.
pub fn depth() -> BoxedStrategy<u8> {
  prop_oneof![
    3 => 0u8..=2,
    3 => 26u8..=29,
    2 => prop::sample::select(vec![8u8, 9, 16, 17]),
    4 => 0u8..=29,
  ]
  .boxed()
}

pub fn depth_upto(max: u8) -> BoxedStrategy<u8> {
  (0u8..=max).boxed()
}

fn uniform_pos() -> BoxedStrategy<Pos> {
  (0.0f64..1.0, -1.0f64..=1.0).prop_map(|(u, z)| Pos::new(u * TWO_PI, z.asin(), "uniform")).boxed()
}

fn turns_pos() -> BoxedStrategy<Pos> {
  (0.0f64..1.0, -1.0f64..=1.0, -4i32..=4, any::<bool>())
    .prop_map(|(u, z, k, neg)| {
      let lon = u * TWO_PI + k as f64 * TWO_PI;
      let lon = if neg { -lon.abs() } else { lon };
      Pos::new(lon, z.asin(), "turns")
    })
    .boxed()
}

fn special_lat() -> BoxedStrategy<f64> {
  let tl = geom::transition_latitude();
  prop_oneof![
    1 => Just(0.0f64),
    1 => Just(-0.0f64),
    2 => Just(tl),
    2 => Just(-tl),
    1 => Just(HALF_PI),
    1 => Just(-HALF_PI),
    1 => Just(LAT_OF_SQUARE_CELL),
    1 => Just(-LAT_OF_SQUARE_CELL),
    4 => (-1.0f64..=1.0).prop_map(|z| z.asin()),
  ]
  .boxed()
}

fn seam_pos() -> BoxedStrategy<Pos> {
  // the special meridians / latitudes exactly, a few ulps away, or at a log-uniform distance
  // 1e-15 .. 1e-3 rad on either side (a branch selected with a tolerance instead of the exact
  // comparison shows only between the ulp and that tolerance)
  let off = || prop_oneof![3 => Just(0.0f64), 2 => (3.0f64..15.0, any::<bool>()).prop_map(|(u, neg)| if neg { -(10.0f64).powf(-u) } else { (10.0f64).powf(-u) })];
  (prop_oneof![3 => -16i32..=16, 1 => -32i32..=32], special_lat(), -2i32..=2, -2i32..=2, off(), off())
    .prop_map(|(k, lat, n1, n2, o1, o2)| Pos::new(nudge(k as f64 * (PI / 4.0), n1) + o1, nudge(lat, n2) + o2, "seam"))
    .boxed()
}

/// Cell of a given depth chosen by class: corners and borders of base cells, one step inside,
/// first / last, uniform.
pub fn cell(depth: u8) -> BoxedStrategy<Cell> {
  let n = 1u32 << depth;
  let m = n - 1;
  let coord_border = move || prop_oneof![Just(0u32), Just(m), Just(1u32.min(m)), Just(m.saturating_sub(1))];
  let any_coord = move || 0u32..=m;
  // coordinates ending a long carry / borrow chain: k * 2^t - 1 and k * 2^t for every t <= depth
  // (the z-order increments of the neighbour code propagate a carry through t interleaved bits)
  let carry_coord = move || {
    (0u32..=(depth as u32), any::<u32>(), any::<bool>()).prop_map(move |(t, hi, ones)| {
      let low = if t >= 32 { u32::MAX } else { (1u32 << t) - 1 };
      let v = if t >= 32 { 0 } else { hi << t };
      (if ones { v | low } else { v }) & m
    })
  };
  prop_oneof![
    1 => (0u8..12, carry_coord(), any_coord()).prop_map(|(b, i, j)| Cell { b, i, j }),
    1 => (0u8..12, any_coord(), carry_coord()).prop_map(|(b, i, j)| Cell { b, i, j }),
    1 => (0u8..12, carry_coord(), carry_coord()).prop_map(|(b, i, j)| Cell { b, i, j }),
    3 => (0u8..12, coord_border(), coord_border()).prop_map(|(b, i, j)| Cell { b, i, j }),
    2 => (0u8..12, coord_border(), any_coord()).prop_map(|(b, i, j)| Cell { b, i, j }),
    2 => (0u8..12, any_coord(), coord_border()).prop_map(|(b, i, j)| Cell { b, i, j }),
    3 => (0u8..12, any_coord(), any_coord()).prop_map(|(b, i, j)| Cell { b, i, j }),
  ]
  .boxed()
}

/// (depth, cell) with the shared depth distribution.
pub fn depth_and_cell() -> BoxedStrategy<(u8, Cell)> {
  depth().prop_flat_map(|d| cell(d).prop_map(move |c| (d, c))).boxed()
}

/// Lattice points: centre or a vertex of a cell of some depth, mapped to the sphere by the
/// reference inverse projection and nudged by 0..2 ulps.
fn lattice_pos() -> BoxedStrategy<Pos> {
  (depth_and_cell(), 0usize..8, -2i32..=2, -2i32..=2, prop_oneof![4 => Just(0i32), 1 => -4i32..=4], (0.0f64..1.0, 1.0f64..15.0, any::<bool>()))
    .prop_map(|((d, c), which, n1, n2, turns, (t, u, outward))| {
      let n = 1i64 << d;
      let (xc, yc) = lat::cell_center(n, c);
      let (xc, yc) = (xc as f64, yc as f64);
      let (x, y) = match which {
        0 => (xc, yc),
        1 => (xc, yc - 1.0),
        2 => (xc + 1.0, yc),
        3 => (xc, yc + 1.0),
        4 => (xc - 1.0, yc),
        // a point of one of the four edges moved towards the centre (or away from it) by 10^-u of
        // the way: every distance to a cell border between the ulp and the cell size
        k => {
          let (ex, ey) = match (k + (t * 1e6) as usize) % 4 {
            0 => (xc + t, yc - 1.0 + t),
            1 => (xc + 1.0 - t, yc + t),
            2 => (xc - t, yc + 1.0 - t),
            _ => (xc - 1.0 + t, yc - t),
          };
          let dd = (10.0f64).powf(-u) * if outward { -1.0 } else { 1.0 };
          (ex + dd * (xc - ex), ey + dd * (yc - ey))
        }
      };
      let (n1, n2) = if which >= 5 { (0, 0) } else { (n1, n2) };
      let (lon, la) = unproj_ref(x / n as f64, (y / n as f64).max(-2.0).min(2.0));
      // the same border point seen from another turn (negative longitudes included): the crate's
      // reduction of the longitude then goes through its other branch
      let lon = lon + turns as f64 * TWO_PI;
      Pos::new(nudge(lon, n1), nudge(la, n2), "lattice")
    })
    .boxed()
}

fn pole_pos() -> BoxedStrategy<Pos> {
  prop_oneof![
    4 => (0.0f64..TWO_PI, 1i32..=16, any::<bool>()).prop_map(|(lon, k, south)| {
      let la = HALF_PI - (10.0f64).powi(-k);
      Pos::new(lon, if south { -la } else { la }, "pole")
    }),
    2 => (-16i32..=16, 1i32..=16, any::<bool>(), -2i32..=2).prop_map(|(q, k, south, n1)| {
      let la = HALF_PI - (10.0f64).powi(-k);
      Pos::new(nudge(q as f64 * (PI / 4.0), n1), if south { -la } else { la }, "pole")
    }),
    4 => (0.0f64..TWO_PI, 0.0f64..17.0, any::<bool>()).prop_map(|(lon, u, south)| {
      // colatitude log-uniform in [1e-17, 1]
      let la = HALF_PI - (10.0f64).powf(-u);
      Pos::new(lon, if south { -la } else { la }, "pole")
    }),
    1 => (prop::sample::select(vec![0.0f64, -0.0, f64::MIN_POSITIVE, 5e-324, -5e-324, 1e-300, -4.4e-17, -1e-16, -2e-16, -3e-16, -3.9e-16, -5e-16, 1e-16]), special_lat())
      .prop_map(|(lon, la)| Pos::new(lon, la, "pole")),
  ]
  .boxed()
}

/// The shared position generator: weighted union of the five classes.
pub fn position() -> BoxedStrategy<Pos> {
  prop_oneof![
    3 => uniform_pos(),
    2 => turns_pos(),
    3 => seam_pos(),
    4 => lattice_pos(),
    1 => pole_pos(),
  ]
  .boxed()
}

/// Positions with `lon` in `[0, 2pi)` (for shape centres).
pub fn position_principal() -> BoxedStrategy<Pos> {
  position()
    .prop_map(|p| {
      let mut lon = p.lon.rem_euclid(TWO_PI);
      if lon >= TWO_PI {
        lon = 0.0;
      }
      Pos { lon, lat: p.lat, class: p.class }
    })
    .boxed()
}

/// Latitudes outside [-pi/2, pi/2] (and NaN / inf).
pub fn invalid_lat() -> BoxedStrategy<f64> {
  prop_oneof![
    (1i32..=4, any::<bool>()).prop_map(|(k, neg)| {
      let v = nudge(HALF_PI, k);
      if neg { -v } else { v }
    }),
    prop::sample::select(vec![2.0f64, -2.0, f64::INFINITY, f64::NEG_INFINITY, f64::NAN, 1.6, -1.58, 100.0]),
    (HALF_PI..10.0f64, any::<bool>()).prop_map(|(v, neg)| if neg { -nudge(v, 1) } else { nudge(v, 1) }),
  ]
  .boxed()
}

/// An invalid cell number (>= `n`, the number of cells) of any magnitude, as a pure function of
/// three generated values: just above `n`, small multiples of `n`, the top of `u64`, uniform in
/// `[n, u64::MAX]`, uniform in bit length, and `(m << shift) | low` with `m >= 12` of any bit
/// length (`shift = 2 depth`: a non-existing base cell followed by arbitrary in-cell bits).
pub fn make_invalid_hash(n: u64, shift: u32, how: u8, a: u64, b: u64) -> u64 {
  let bitlen = |v: u64| 64 - v.leading_zeros();
  let with_bits = |bits: u32, raw: u64| -> u64 {
    if bits == 0 {
      0
    } else if bits >= 64 {
      raw | (1u64 << 63)
    } else {
      (1u64 << (bits - 1)) | (raw & ((1u64 << (bits - 1)) - 1))
    }
  };
  let v = match how % 7 {
    0 => n + (a % 2),
    1 => n.saturating_add(a % 1000),
    2 => n.saturating_mul(2).saturating_add(a % 1000),
    3 => u64::MAX - (a % 1000),
    4 => n.saturating_add(a % (u64::MAX - n)),
    5 => {
      let lo = bitlen(n);
      with_bits(lo + (a % (65 - lo) as u64) as u32, b)
    }
    _ => {
      let max_m_bits = 64 - shift; // m < 2^max_m_bits
      let bits = 4 + (a % (max_m_bits as u64 - 3)) as u32; // 4..=max_m_bits
      let m = with_bits(bits.min(max_m_bits), b.rotate_left(17)).max(12);
      let low = if shift == 0 { 0 } else { b & ((1u64 << shift) - 1) };
      (m << shift) | low
    }
  };
  v.max(n)
}

pub fn invalid_hash_parts() -> BoxedStrategy<(u8, u64, u64)> {
  (0u8..7, any::<u64>(), any::<u64>()).boxed()
}
