//! Thin wrappers around the crate under test (the only place, with `props`, that calls it).

use cdshealpix::compass_point::{Cardinal, MainWind};
use cdshealpix::nested;

pub fn main_wind(idx: usize) -> MainWind {
  MainWind::from_index(idx as u8)
}

pub fn cardinal(idx: usize) -> Cardinal {
  Cardinal::from_index(idx as u8)
}

/// neighbours(h, include_center) as an array indexed by main wind.
pub fn neighbours_arr(depth: u8, h: u64, include_center: bool) -> [Option<u64>; 9] {
  let m = nested::neighbours(depth, h, include_center);
  let mut out = [None; 9];
  for d in 0..9 {
    out[d] = m.get(main_wind(d)).copied();
  }
  out
}

pub fn bmoc_raw(b: &nested::bmoc::BMOC) -> Vec<u64> {
  b.entries.iter().copied().collect()
}

/// First use of every lazily initialised per-depth table, single-threaded, before any worker
/// thread starts: the concurrent-first-use behaviour is the subject of C20 alone, the other
/// checks must not depend on it.
pub fn warm_up() {
  for d in 0..=29u8 {
    let _ = nested::get_or_create(d);
    let _ = cdshealpix::largest_center_to_vertex_distance(d, 0.1, 0.1);
  }
}
