//! Float reference: HEALPix projection written from Calabretta & Roukema (2007), and plain
//! 3-vector spherical geometry (DESIGN.md §2.2, §2.3).  Nothing here calls the crate under test.

use super::lattice::{cell_center, Cell};
use std::f64::consts::PI;

pub const HALF_PI: f64 = 0.5 * PI;
pub const TWO_PI: f64 = 2.0 * PI;
pub const SQRT6: f64 = 2.449489742783178;
pub const TRANSITION_Z: f64 = 2.0 / 3.0;

pub fn transition_latitude() -> f64 {
  (2.0f64 / 3.0).asin()
}

/// Absolute tolerance, in plane units, of the containment test (DESIGN §2.2):
/// `2^-44 * max(1, |lon|*4/pi/8)`.
pub fn tau(lon: f64) -> f64 {
  let turns = (lon.abs() * 4.0 / PI) / 8.0;
  (2.0f64).powi(-44) * turns.max(1.0)
}

/// sigma = sqrt(3 (1 - |sin lat|)) without cancellation.
pub fn sigma_of_lat(abs_lat: f64) -> f64 {
  SQRT6 * (0.25 * PI - 0.5 * abs_lat).sin().abs()
}

/// Primary image of a position in the projection plane, `x in [0, 8)`.
pub fn proj_ref(lon: f64, lat: f64) -> (f64, f64) {
  let t = (lon * (4.0 / PI)).rem_euclid(8.0);
  let t = if t >= 8.0 { 0.0 } else { t };
  let alat = lat.abs();
  if alat <= transition_latitude() {
    (t, 1.5 * lat.sin())
  } else {
    let q = (t * 0.5).floor().min(3.0);
    let x_pm1 = t - (2.0 * q + 1.0);
    let s = sigma_of_lat(alat);
    let x = 2.0 * q + 1.0 + x_pm1 * s;
    (x, (2.0 - s).copysign(lat))
  }
}

/// All plane images of a position that matter for a containment test: the primary one plus,
/// for a position within 1e-9 (in units of the half-width of its Collignon triangle, or in plane
/// units) of a cap seam, the image on the other side of the seam, and the four facet images near a pole.
pub fn images(lon: f64, lat: f64) -> Vec<(f64, f64)> {
  let mut v = Vec::with_capacity(4);
  let t = (lon * (4.0 / PI)).rem_euclid(8.0);
  let t = if t >= 8.0 { 0.0 } else { t };
  let alat = lat.abs();
  if alat <= transition_latitude() {
    v.push((t, 1.5 * lat.sin()));
    return v;
  }
  let q = (t * 0.5).floor().min(3.0);
  let x_pm1 = t - (2.0 * q + 1.0);
  let s = sigma_of_lat(alat);
  let y = (2.0 - s).copysign(lat);
  v.push((2.0 * q + 1.0 + x_pm1 * s, y));
  if s <= 1e-9 {
    for k in 1..4 {
      let qq = (q + k as f64).rem_euclid(4.0);
      v.push((2.0 * qq + 1.0 + x_pm1 * s, y));
    }
    return v;
  }
  // (near a pole the triangle is narrow: a point may be 1e-7 half-widths from the seam and yet 2e-16
  // plane units from it; `outside_by` measures the actual distance of each image anyway)
  if 1.0 - x_pm1 <= 1e-9 || (1.0 - x_pm1) * s <= 1e-9 {
    // east seam of facet q == west seam of facet q+1
    let qq = (q + 1.0).rem_euclid(4.0);
    v.push((2.0 * qq + 1.0 + (x_pm1 - 2.0) * s, y));
  }
  if x_pm1 + 1.0 <= 1e-9 || (x_pm1 + 1.0) * s <= 1e-9 {
    let qq = (q + 3.0).rem_euclid(4.0);
    v.push((2.0 * qq + 1.0 + (x_pm1 + 2.0) * s, y));
  }
  v
}

/// Reference inverse projection, `x` any real (reduced mod 8), `|y| <= 2`.
/// In the caps, `x` outside the Collignon triangle of its facet is clamped onto its border.
pub fn unproj_ref(x: f64, y: f64) -> (f64, f64) {
  let x = x.rem_euclid(8.0);
  let x = if x >= 8.0 { 0.0 } else { x };
  let ay = y.abs();
  if ay <= 1.0 {
    (x * (PI / 4.0), (y * TRANSITION_Z).asin())
  } else {
    let s = (2.0 - ay).max(0.0);
    let q = (x * 0.5).floor().min(3.0);
    let xc = 2.0 * q + 1.0;
    let x_pm1 = if s > 0.0 { ((x - xc) / s).max(-1.0).min(1.0) } else { 0.0 };
    let lat = HALF_PI - 2.0 * (s / SQRT6).asin();
    ((xc + x_pm1) * (PI / 4.0), lat.copysign(y))
  }
}

/// Cyclic difference `a - b` of plane abscissae, in `[-4, 4)`.
pub fn dx_cyc(a: f64, b: f64) -> f64 {
  (a - b + 4.0).rem_euclid(8.0) - 4.0
}

/// Centre of a cell in plane units (float).
pub fn cell_center_plane(n: i64, c: Cell) -> (f64, f64) {
  let (xc, yc) = cell_center(n, c);
  (xc as f64 / n as f64, yc as f64 / n as f64)
}

/// How far (plane units, L1 "diamond" metric) the position is outside the cell: `<= 0` means inside.
/// Minimum over the images of the position.
pub fn outside_by(n: i64, c: Cell, lon: f64, lat: f64) -> f64 {
  let (xc, yc) = cell_center_plane(n, c);
  let half = 1.0 / n as f64;
  let mut best = f64::INFINITY;
  for (x, y) in images(lon, lat) {
    let d = dx_cyc(x, xc).abs() + (y - yc).abs() - half;
    if d < best {
      best = d;
    }
  }
  best
}

/// Containment of a position in a cell with the model tolerance.
pub fn contains(n: i64, c: Cell, lon: f64, lat: f64) -> bool {
  outside_by(n, c, lon, lat) <= tau(lon)
}

/// Distance (plane units, diamond metric scaled so that a cell has half-diagonal 1) of the
/// position to the nearest cell border of nside `n`, i.e. how close to a border the point is.
pub fn dist_to_border(n: i64, lon: f64, lat: f64) -> f64 {
  let (x, y) = proj_ref(lon, lat);
  let nf = n as f64;
  // rotated coordinates: u = (x + y) * n / 2 ... borders are at integer values of (x+y)n/2+k and (y-x)n/2+k
  // borders are at integers + n/2 in these coordinates (half-integers when n is odd)
  let off = if n & 1 == 1 { 0.5 } else { 0.0 };
  let u = (x + y) * nf * 0.5 - off;
  let v = (y - x) * nf * 0.5 - off;
  let du = (u - u.round()).abs();
  let dv = (v - v.round()).abs();
  du.min(dv) * 2.0 / nf
}

// ---------------------------------------------------------------------------------------------
// 3-vectors

#[derive(Clone, Copy, Debug)]
pub struct V3 {
  pub x: f64,
  pub y: f64,
  pub z: f64,
}

impl V3 {
  pub fn from_lonlat(lon: f64, lat: f64) -> V3 {
    let c = lat.cos();
    V3 { x: c * lon.cos(), y: c * lon.sin(), z: lat.sin() }
  }
  pub fn lonlat(&self) -> (f64, f64) {
    let lon = self.y.atan2(self.x);
    let lon = if lon < 0.0 { lon + TWO_PI } else { lon };
    let r = (self.x * self.x + self.y * self.y).sqrt();
    (lon, self.z.atan2(r))
  }
  pub fn dot(&self, o: &V3) -> f64 {
    self.x * o.x + self.y * o.y + self.z * o.z
  }
  pub fn cross(&self, o: &V3) -> V3 {
    V3 { x: self.y * o.z - self.z * o.y, y: self.z * o.x - self.x * o.z, z: self.x * o.y - self.y * o.x }
  }
  pub fn norm(&self) -> f64 {
    self.dot(self).sqrt()
  }
  pub fn scale(&self, k: f64) -> V3 {
    V3 { x: self.x * k, y: self.y * k, z: self.z * k }
  }
  pub fn add(&self, o: &V3) -> V3 {
    V3 { x: self.x + o.x, y: self.y + o.y, z: self.z + o.z }
  }
  pub fn normalized(&self) -> V3 {
    self.scale(1.0 / self.norm())
  }
}

/// Angular distance between two unit vectors, accurate at all separations.
/// Signed distance (rad, to first order) of `p` from the great circle through `a` and `b`, positive
/// on the left of a -> b seen from outside the sphere: `a . ((b - a) x (p - a)) / |b - a|`.
/// Differences are taken first, so that for points a, b, p within 1e-9 rad of each other the
/// result keeps a relative accuracy of ~1e-16 / |b - a| x |..| instead of the absolute error
/// 1e-16 / |b - a| of `p . normalized(a x b)`.
pub fn plane_side(a: &V3, b: &V3, p: &V3) -> f64 {
  let e = V3 { x: b.x - a.x, y: b.y - a.y, z: b.z - a.z };
  let q = V3 { x: p.x - a.x, y: p.y - a.y, z: p.z - a.z };
  let len = e.norm();
  if len == 0.0 {
    return 0.0;
  }
  a.dot(&e.cross(&q)) / len
}

pub fn ang_dist_v(a: &V3, b: &V3) -> f64 {
  a.cross(b).norm().atan2(a.dot(b))
}

pub fn ang_dist(lon1: f64, lat1: f64, lon2: f64, lat2: f64) -> f64 {
  ang_dist_v(&V3::from_lonlat(lon1, lat1), &V3::from_lonlat(lon2, lat2))
}

/// Point at angular distance `rho` from `(lon, lat)` in the direction of azimuth `theta`
/// (east of north).
pub fn point_at(lon: f64, lat: f64, rho: f64, theta: f64) -> (f64, f64) {
  let c = V3::from_lonlat(lon, lat);
  // local north and east unit vectors
  let north = V3 { x: -lat.sin() * lon.cos(), y: -lat.sin() * lon.sin(), z: lat.cos() };
  let east = V3 { x: -lon.sin(), y: lon.cos(), z: 0.0 };
  let dir = north.scale(theta.cos()).add(&east.scale(theta.sin()));
  let p = c.scale(rho.cos()).add(&dir.scale(rho.sin()));
  p.normalized().lonlat()
}

/// The four vertices (S, E, N, W) of a cell on the sphere, by the reference inverse projection.
pub fn cell_vertices_sphere(n: i64, c: Cell) -> [(f64, f64); 4] {
  let (xc, yc) = cell_center_plane(n, c);
  let h = 1.0 / n as f64;
  [unproj_ref(xc, yc - h), unproj_ref(xc + h, yc), unproj_ref(xc, yc + h), unproj_ref(xc - h, yc)]
}

pub fn cell_center_sphere(n: i64, c: Cell) -> (f64, f64) {
  let (xc, yc) = cell_center_plane(n, c);
  unproj_ref(xc, yc)
}

/// `k` points per edge (plus the vertices) of the boundary of a cell, on the sphere.
pub fn cell_boundary_sphere(n: i64, c: Cell, k: usize) -> Vec<(f64, f64)> {
  let (xc, yc) = cell_center_plane(n, c);
  let h = 1.0 / n as f64;
  let corners = [(0.0, -h), (h, 0.0), (0.0, h), (-h, 0.0)];
  let mut out = Vec::with_capacity(4 * (k + 1));
  for e in 0..4 {
    let (ax, ay) = corners[e];
    let (bx, by) = corners[(e + 1) % 4];
    for s in 0..=k {
      let f = s as f64 / (k + 1) as f64;
      out.push(unproj_ref(xc + ax + f * (bx - ax), yc + ay + f * (by - ay)));
    }
  }
  out
}

/// Largest angular distance from the cell centre to one of its four vertices (model).
pub fn c2v_model(n: i64, c: Cell) -> f64 {
  let (lc, bc) = cell_center_sphere(n, c);
  cell_vertices_sphere(n, c).iter().map(|&(l, b)| ang_dist(lc, bc, l, b)).fold(0.0, f64::max)
}

/// `Dmax(d)`: the largest centre-to-vertex distance over all cells of depth d.
/// Exhaustive for d <= 8 is too slow to redo at every call, so by symmetry only the cells of base
/// cells 0 and 4 (one polar, one equatorial facet; the others are rotations / mirror images) are
/// enumerated, for d <= 8; deeper depths use `Dmax(8) * 2^(8-d) * 1.01`.
pub fn dmax(depth: u8) -> f64 {
  use std::sync::OnceLock;
  static TABLE: OnceLock<[f64; 9]> = OnceLock::new();
  let t = TABLE.get_or_init(|| {
    let mut t = [0.0; 9];
    for d in 0..=8u8 {
      let n = 1i64 << d;
      let mut m = 0.0f64;
      for b in [0u8, 4u8] {
        for i in 0..n as u32 {
          for j in 0..n as u32 {
            m = m.max(c2v_model(n, Cell { b, i, j }));
          }
        }
      }
      t[d as usize] = m;
    }
    t
  });
  if depth <= 8 {
    t[depth as usize]
  } else {
    t[8] * (0.5f64).powi(depth as i32 - 8) * 1.01
  }
}

/// Next representable float above / below `x` by `k` ulps (k may be negative).
pub fn nudge(x: f64, k: i32) -> f64 {
  if k == 0 || !x.is_finite() {
    return x;
  }
  let mut v = x;
  for _ in 0..k.abs() {
    v = if k > 0 { next_up(v) } else { next_down(v) };
  }
  v
}

pub fn next_up(x: f64) -> f64 {
  if x.is_nan() || x == f64::INFINITY {
    return x;
  }
  if x == 0.0 {
    return f64::from_bits(1);
  }
  let b = x.to_bits();
  if x > 0.0 {
    f64::from_bits(b + 1)
  } else {
    f64::from_bits(b - 1)
  }
}

pub fn next_down(x: f64) -> f64 {
  -next_up(-x)
}

pub fn self_test() -> Result<(), String> {
  // projection round trip on a grid
  let mut k = 0u64;
  for a in 0..200 {
    for b in 0..101 {
      let lon = a as f64 * (TWO_PI / 200.0);
      let lat = -HALF_PI + b as f64 * (PI / 100.0);
      let lat = lat.max(-HALF_PI).min(HALF_PI);
      let (x, y) = proj_ref(lon, lat);
      if !(0.0..8.0).contains(&x) || y.abs() > 2.0 {
        return Err(format!("proj_ref out of range at {} {}", lon, lat));
      }
      let (l2, b2) = unproj_ref(x, y);
      let d = ang_dist(lon, lat, l2, b2);
      if d > 1e-14 {
        return Err(format!("proj_ref/unproj_ref round trip {} {} -> {} {} (d={})", lon, lat, l2, b2, d));
      }
      k += 1;
    }
  }
  let _ = k;
  // known points
  let tl = transition_latitude();
  let chk = |p: (f64, f64), e: (f64, f64)| (p.0 - e.0).abs() < 1e-14 && (p.1 - e.1).abs() < 1e-14;
  if !chk(proj_ref(0.0, 0.0), (0.0, 0.0)) || !chk(proj_ref(PI / 4.0, HALF_PI), (1.0, 2.0)) || !chk(proj_ref(HALF_PI, tl), (2.0, 1.0)) {
    return Err("proj_ref known points".into());
  }
  // centre of a cell is inside it, vertices are on the border
  for n in [1i64, 2, 3, 8, 1 << 29] {
    for b in 0..12u8 {
      for &(i, j) in &[(0u32, 0u32), ((n - 1) as u32, 0), (0, (n - 1) as u32), ((n - 1) as u32, (n - 1) as u32), ((n / 2) as u32, (n / 3) as u32)] {
        let c = Cell { b, i, j };
        let (l, bb) = cell_center_sphere(n, c);
        let o = outside_by(n, c, l, bb);
        if (o + 1.0 / n as f64).abs() > 1e-13 {
          return Err(format!("centre of {:?} n={} not at the centre: outside_by={}", c, n, o));
        }
        for (l, bb) in cell_vertices_sphere(n, c) {
          let o = outside_by(n, c, l, bb);
          if o.abs() > 1e-13 {
            return Err(format!("vertex of {:?} n={} not on the border: outside_by={}", c, n, o));
          }
        }
      }
    }
  }
  // point_at
  let (l, b) = point_at(1.0, 0.3, 0.5, 0.7);
  if (ang_dist(1.0, 0.3, l, b) - 0.5).abs() > 1e-15 {
    return Err("point_at distance".into());
  }
  let (l, b) = point_at(1.0, 0.3, 0.1, 0.0);
  if (l - 1.0).abs() > 1e-14 || (b - 0.4).abs() > 1e-14 {
    return Err("point_at north".into());
  }
  Ok(())
}
