//! Set / three-valued-map model of (B)MOCs (DESIGN.md §2.4).  Own decoder / encoder of the raw
//! 64-bit entries, interval representation at the leaf level, pointwise operators, canonical packer.
//! Nothing here calls the crate under test.

pub const ABSENT: u8 = 0;
pub const PARTIAL: u8 = 1;
pub const FULL: u8 = 2;

#[derive(Clone, Copy, Debug, PartialEq, Eq, Hash, PartialOrd, Ord)]
pub struct MCell {
  pub depth: u8,
  pub hash: u64,
  pub full: bool,
}

/// Leaf interval `[start, end)` at depth `depth_max` with a state (1 partial, 2 full).
#[derive(Clone, Copy, Debug, PartialEq, Eq)]
pub struct Iv {
  pub start: u64,
  pub end: u64,
  pub state: u8,
}

/// Encode a cell as the documented raw value `BBBBxx..xxS00..00F`.
pub fn encode_raw(depth_max: u8, c: MCell) -> u64 {
  let dd = (depth_max - c.depth) as u32;
  ((((c.hash << 1) | 1) << (2 * dd)) << 1) | (c.full as u64)
}

/// Decode a raw value; `Err` if it is not a valid encoding for this `depth_max`.
pub fn decode_raw(depth_max: u8, raw: u64) -> Result<MCell, String> {
  let full = raw & 1 == 1;
  let v = raw >> 1;
  if v == 0 {
    return Err(format!("raw value {} has no sentinel bit", raw));
  }
  let tz = v.trailing_zeros();
  if tz & 1 == 1 {
    return Err(format!("raw value {}: sentinel bit at odd position {}", raw, tz));
  }
  let dd = tz / 2;
  if dd > depth_max as u32 {
    return Err(format!("raw value {}: depth would be negative (dd={}, depth_max={})", raw, dd, depth_max));
  }
  let depth = depth_max - dd as u8;
  let hash = v >> (tz + 1);
  if hash >= 12u64 << (2 * depth as u32) {
    return Err(format!("raw value {}: hash {} out of range for depth {}", raw, hash, depth));
  }
  Ok(MCell { depth, hash, full })
}

pub fn leaf_range(depth_max: u8, c: &MCell) -> (u64, u64) {
  let s = 2 * (depth_max - c.depth) as u32;
  (c.hash << s, (c.hash + 1) << s)
}

/// Well-formedness of a list of raw entries (C09): valid encodings, depth <= depth_max, hash in range,
/// raw values strictly increasing, leaf ranges disjoint and increasing.  Returns the decoded cells.
pub fn well_formed(depth_max: u8, raw: &[u64]) -> Result<Vec<MCell>, String> {
  if depth_max > 29 {
    return Err(format!("depth_max {} > 29", depth_max));
  }
  let mut cells = Vec::with_capacity(raw.len());
  let mut prev_raw: Option<u64> = None;
  let mut prev_end = 0u64;
  for (k, &r) in raw.iter().enumerate() {
    let c = decode_raw(depth_max, r).map_err(|e| format!("entry {}: {}", k, e))?;
    if let Some(p) = prev_raw {
      if r <= p {
        return Err(format!("entry {}: raw value {} not greater than previous {}", k, r, p));
      }
    }
    let (s, e) = leaf_range(depth_max, &c);
    if k > 0 && s < prev_end {
      return Err(format!("entry {}: cell {}/{} overlaps the previous cell (leaf {} < {})", k, c.depth, c.hash, s, prev_end));
    }
    prev_end = e;
    prev_raw = Some(r);
    cells.push(c);
  }
  Ok(cells)
}

/// Interval representation at depth `target_depth >= depth_max` of a well-formed cell list.
pub fn to_intervals(depth_max: u8, target_depth: u8, cells: &[MCell]) -> Vec<Iv> {
  let up = 2 * (target_depth - depth_max) as u32;
  let mut out: Vec<Iv> = Vec::with_capacity(cells.len());
  for c in cells {
    let (s, e) = leaf_range(depth_max, c);
    let (s, e) = (s << up, e << up);
    let st = if c.full { FULL } else { PARTIAL };
    if let Some(last) = out.last_mut() {
      if last.end == s && last.state == st {
        last.end = e;
        continue;
      }
    }
    out.push(Iv { start: s, end: e, state: st });
  }
  out
}

fn normalize(mut v: Vec<Iv>) -> Vec<Iv> {
  let mut out: Vec<Iv> = Vec::with_capacity(v.len());
  for iv in v.drain(..) {
    if iv.state == ABSENT || iv.start >= iv.end {
      continue;
    }
    if let Some(last) = out.last_mut() {
      if last.end == iv.start && last.state == iv.state {
        last.end = iv.end;
        continue;
      }
    }
    out.push(iv);
  }
  out
}

/// Pointwise combination of two interval lists over the leaf universe `[0, n_leaves)`.
pub fn combine(a: &[Iv], b: &[Iv], n_leaves: u64, f: impl Fn(u8, u8) -> u8) -> Vec<Iv> {
  let mut cuts: Vec<u64> = Vec::with_capacity(2 * (a.len() + b.len()) + 2);
  cuts.push(0);
  cuts.push(n_leaves);
  for iv in a.iter().chain(b.iter()) {
    cuts.push(iv.start);
    cuts.push(iv.end);
  }
  cuts.sort_unstable();
  cuts.dedup();
  let mut out = Vec::new();
  let (mut ia, mut ib) = (0usize, 0usize);
  for w in cuts.windows(2) {
    let (s, e) = (w[0], w[1]);
    while ia < a.len() && a[ia].end <= s {
      ia += 1;
    }
    while ib < b.len() && b[ib].end <= s {
      ib += 1;
    }
    let sa = if ia < a.len() && a[ia].start <= s { a[ia].state } else { ABSENT };
    let sb = if ib < b.len() && b[ib].start <= s { b[ib].state } else { ABSENT };
    out.push(Iv { start: s, end: e, state: f(sa, sb) });
  }
  normalize(out)
}

pub fn op_not(a: &[Iv], n_leaves: u64) -> Vec<Iv> {
  combine(a, &[], n_leaves, |x, _| match x {
    ABSENT => FULL,
    FULL => ABSENT,
    _ => PARTIAL,
  })
}
pub fn op_and(a: &[Iv], b: &[Iv], n: u64) -> Vec<Iv> {
  combine(a, b, n, |x, y| x.min(y))
}
pub fn op_or(a: &[Iv], b: &[Iv], n: u64) -> Vec<Iv> {
  combine(a, b, n, |x, y| x.max(y))
}
pub fn op_xor(a: &[Iv], b: &[Iv], n: u64) -> Vec<Iv> {
  combine(a, b, n, |x, y| match (x, y) {
    (ABSENT, v) => v,
    (v, ABSENT) => v,
    (FULL, FULL) => ABSENT,
    _ => PARTIAL,
  })
}

/// Canonical packed cell list of a set of full leaves (an ordinary MOC): a cell is listed iff all
/// its leaves are in the set and its parent is not entirely in the set.
pub fn canonical_cells(depth_max: u8, ivs: &[Iv]) -> Vec<MCell> {
  let mut out = Vec::new();
  for iv in ivs {
    debug_assert!(iv.state == FULL);
    let mut p = iv.start;
    while p < iv.end {
      let mut dd = 0u32;
      while dd < depth_max as u32 {
        let sz = 1u64 << (2 * (dd + 1));
        if p % sz == 0 && p + sz <= iv.end {
          dd += 1;
        } else {
          break;
        }
      }
      out.push(MCell { depth: depth_max - dd as u8, hash: p >> (2 * dd), full: true });
      p += 1u64 << (2 * dd);
    }
  }
  out
}

pub fn canonical_raw(depth_max: u8, ivs: &[Iv]) -> Vec<u64> {
  canonical_cells(depth_max, ivs).into_iter().map(|c| encode_raw(depth_max, c)).collect()
}

/// True if the cell list contains four full sibling cells (i.e. is not packed).
pub fn has_four_full_siblings(cells: &[MCell]) -> bool {
  for w in cells.windows(4) {
    if w[0].depth > 0
      && w.iter().all(|c| c.full && c.depth == w[0].depth)
      && w[0].hash & 3 == 0
      && w[1].hash == w[0].hash + 1
      && w[2].hash == w[0].hash + 2
      && w[3].hash == w[0].hash + 3
    {
      return true;
    }
  }
  false
}

pub fn n_leaves(depth_max: u8) -> u64 {
  12u64 << (2 * depth_max as u32)
}

pub fn deep_size(ivs: &[Iv]) -> u64 {
  ivs.iter().map(|iv| iv.end - iv.start).sum()
}

/// State of leaf `h` in an interval list.
pub fn state_at(ivs: &[Iv], h: u64) -> u8 {
  match ivs.binary_search_by(|iv| {
    if iv.end <= h {
      std::cmp::Ordering::Less
    } else if iv.start > h {
      std::cmp::Ordering::Greater
    } else {
      std::cmp::Ordering::Equal
    }
  }) {
    Ok(k) => ivs[k].state,
    Err(_) => ABSENT,
  }
}

pub fn self_test() -> Result<(), String> {
  // encode/decode round trip
  for dm in [0u8, 1, 5, 29] {
    for d in 0..=dm {
      for &h in &[0u64, 1, (12u64 << (2 * d as u32)) - 1] {
        for full in [false, true] {
          let c = MCell { depth: d, hash: h, full };
          let r = encode_raw(dm, c);
          if decode_raw(dm, r) != Ok(c) {
            return Err(format!("raw round trip {:?} dm={}", c, dm));
          }
        }
      }
    }
  }
  // documented examples: depth_max 2, cell (0, 4, full)
  if encode_raw(2, MCell { depth: 0, hash: 4, full: true }) != (((4u64 << 1) | 1) << 5) | 1 {
    return Err("encode_raw example".into());
  }
  // packer idempotence and set semantics on a small universe
  let dm = 2u8;
  let n = n_leaves(dm);
  let a = vec![Iv { start: 0, end: 16, state: FULL }, Iv { start: 20, end: 23, state: FULL }];
  let cells = canonical_cells(dm, &a);
  let want = vec![
    MCell { depth: 0, hash: 0, full: true },
    MCell { depth: 1, hash: 5, full: true }.clone(),
  ];
  if cells[0] != want[0] || cells.len() != 4 {
    return Err(format!("canonical_cells {:?}", cells));
  }
  let back = to_intervals(dm, dm, &cells);
  if back != a {
    return Err("canonical_cells/to_intervals round trip".into());
  }
  let na = op_not(&a, n);
  if op_not(&na, n) != a || !op_and(&a, &na, n).is_empty() || op_or(&a, &na, n) != vec![Iv { start: 0, end: n, state: FULL }] {
    return Err("set algebra self test".into());
  }
  if !op_xor(&a, &a, n).is_empty() {
    return Err("xor self test".into());
  }
  if !has_four_full_siblings(&[
    MCell { depth: 1, hash: 4, full: true },
    MCell { depth: 1, hash: 5, full: true },
    MCell { depth: 1, hash: 6, full: true },
    MCell { depth: 1, hash: 7, full: true },
  ]) {
    return Err("has_four_full_siblings".into());
  }
  Ok(())
}
