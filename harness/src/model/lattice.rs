//! Exact integer lattice model of the HEALPix tessellation (DESIGN.md §2.1, Appendix A).
//!
//! Nothing in this file calls the crate under test.
//!
//! Plane `x in [0,8)`, `y in [-2,2]`, NSIDE `n` (any integer >= 1), integers `X = n*x`, `Y = n*y`.

use std::collections::BTreeSet;

/// A cell given by its base cell and its in-base-cell coordinates (i along S->E, j along S->W).
#[derive(Clone, Copy, Debug, PartialEq, Eq, Hash, PartialOrd, Ord, serde::Serialize, serde::Deserialize)]
pub struct Cell {
  pub b: u8,
  pub i: u32,
  pub j: u32,
}

/// Index of the main winds, same numbering as the documented `MainWind::from_index`.
pub const S: usize = 0;
pub const SE: usize = 1;
pub const E: usize = 2;
pub const SW: usize = 3;
pub const C: usize = 4;
pub const NE: usize = 5;
pub const W: usize = 6;
pub const NW: usize = 7;
pub const N: usize = 8;
pub const WIND_NAMES: [&str; 9] = ["S", "SE", "E", "SW", "C", "NE", "W", "NW", "N"];

/// Centre of base cell `b` in lattice units.
pub fn base_center(n: i64, b: u8) -> (i64, i64) {
  let q = (b & 3) as i64;
  match b >> 2 {
    0 => ((2 * q + 1) * n, n),
    1 => (2 * q * n, 0),
    2 => ((2 * q + 1) * n, -n),
    _ => panic!("model: base cell out of range"),
  }
}

/// Centre of a cell in lattice units, `X` reduced to `[0, 8n)`.
pub fn cell_center(n: i64, c: Cell) -> (i64, i64) {
  let (x0, y0) = base_center(n, c.b);
  let (i, j) = (c.i as i64, c.j as i64);
  ((x0 + i - j).rem_euclid(8 * n), y0 + i + j + 1 - n)
}

/// Inverse of `cell_center`: the cell whose centre is the lattice point (any representative of X).
pub fn cell_from_center(n: i64, xc: i64, yc: i64) -> Option<Cell> {
  let xc = xc.rem_euclid(8 * n);
  for b in 0..12u8 {
    let (x0, y0) = base_center(n, b);
    let s = yc - y0 + n - 1; // = i + j
    if s < 0 || s > 2 * n - 2 {
      continue;
    }
    for k in [-1i64, 0, 1] {
      let dx = xc - x0 + k * 8 * n; // = i - j
      if dx.abs() > n - 1 {
        continue;
      }
      if (dx + s) & 1 != 0 {
        continue;
      }
      let i = (dx + s) / 2;
      let j = (s - dx) / 2;
      if i >= 0 && i < n && j >= 0 && j < n {
        return Some(Cell { b, i: i as u32, j: j as u32 });
      }
    }
  }
  None
}

/// Bit-by-bit interleave: bits of `i` on even positions, bits of `j` on odd positions.
pub fn interleave(i: u32, j: u32) -> u64 {
  let mut h = 0u64;
  for k in 0..32 {
    h |= (((i >> k) & 1) as u64) << (2 * k);
    h |= (((j >> k) & 1) as u64) << (2 * k + 1);
  }
  h
}

/// Inverse of `interleave`.
pub fn deinterleave(h: u64) -> (u32, u32) {
  let (mut i, mut j) = (0u32, 0u32);
  for k in 0..32 {
    i |= (((h >> (2 * k)) & 1) as u32) << k;
    j |= (((h >> (2 * k + 1)) & 1) as u32) << k;
  }
  (i, j)
}

pub fn nested_hash(depth: u8, c: Cell) -> u64 {
  ((c.b as u64) << (2 * depth as u32)) | interleave(c.i, c.j)
}

pub fn nested_decode(depth: u8, h: u64) -> Cell {
  let b = (h >> (2 * depth as u32)) as u8;
  let low = if depth == 0 { 0 } else { h & ((1u64 << (2 * depth as u32)) - 1) };
  let (i, j) = deinterleave(low);
  Cell { b, i, j }
}

pub fn n_hash(depth: u8) -> u64 {
  12u64 << (2 * depth as u32)
}

/// Canonical key of a lattice point under the gluing of the projection (G1..G3 of Appendix A).
#[derive(Clone, Copy, Debug, PartialEq, Eq, Hash, PartialOrd, Ord)]
pub enum VKey {
  Pole(i8),
  Cap { sign: i8, ay: i64, q: u8, s: i64 },
  Eq { y: i64, x: i64 },
}

/// Canonical key of lattice point `(x, y)`; `None` if the point lies in a Collignon gap
/// (not the image of any point of the sphere) or outside `|y| <= 2n`.
pub fn canon_vertex(n: i64, x: i64, y: i64) -> Option<VKey> {
  let ay = y.abs();
  if ay > 2 * n {
    return None;
  }
  let x = x.rem_euclid(8 * n);
  if ay <= n {
    return Some(VKey::Eq { y, x });
  }
  let sign = if y > 0 { 1 } else { -1 };
  let t = 2 * n - ay;
  if t == 0 {
    // pole: only the four points ((2q+1)n, +-2n) are valid images
    return if (x - n).rem_euclid(2 * n) == 0 { Some(VKey::Pole(sign)) } else { None };
  }
  let q = x / (2 * n);
  let s = x - ((2 * q + 1) * n - t);
  if s < 0 || s > 2 * t {
    return None;
  }
  if s == 2 * t {
    Some(VKey::Cap { sign, ay, q: ((q + 1) % 4) as u8, s: 0 })
  } else {
    Some(VKey::Cap { sign, ay, q: q as u8, s })
  }
}

/// All plane representatives (X in [0, 8n)) of the sphere point of key `k`.
pub fn vertex_reps(n: i64, k: VKey) -> Vec<(i64, i64)> {
  match k {
    VKey::Pole(sign) => (0..4).map(|q| ((2 * q + 1) * n, sign as i64 * 2 * n)).collect(),
    VKey::Eq { y, x } => vec![(x, y)],
    VKey::Cap { sign, ay, q, s } => {
      let t = 2 * n - ay;
      let y = sign as i64 * ay;
      let q = q as i64;
      let mut v = vec![(((2 * q + 1) * n - t + s).rem_euclid(8 * n), y)];
      if s == 0 {
        // also the east border of facet q-1
        let qm = (q + 3) % 4;
        v.push((((2 * qm + 1) * n + t).rem_euclid(8 * n), y));
      }
      v
    }
  }
}

/// The cells (of nside `n`) touching the lattice vertex `(x, y)`: 4, or 3 at the eight points
/// `(2q*n, +-n)`; no table involved.
pub fn cells_touching_vertex(n: i64, x: i64, y: i64) -> Vec<Cell> {
  let mut out: BTreeSet<Cell> = BTreeSet::new();
  if let Some(k) = canon_vertex(n, x, y) {
    for (rx, ry) in vertex_reps(n, k) {
      for (cx, cy) in [(rx, ry - 1), (rx, ry + 1), (rx - 1, ry), (rx + 1, ry)] {
        if let Some(c) = cell_from_center(n, cx, cy) {
          out.insert(c);
        }
      }
    }
  }
  out.into_iter().collect()
}

/// The four vertices S, E, N, W of a cell (lattice units, not reduced).
pub fn cell_vertices(n: i64, c: Cell) -> [(i64, i64); 4] {
  let (xc, yc) = cell_center(n, c);
  [(xc, yc - 1), (xc + 1, yc), (xc, yc + 1), (xc - 1, yc)]
}

/// Error raised when the lattice rules give a pattern that the tessellation cannot have
/// (a self-test failure of the model, never a verdict on the crate).
#[derive(Debug)]
pub struct ModelError(pub String);

/// Reference neighbour map with directions. Index = main wind index; `C` holds the cell itself.
pub fn neighbours(n: i64, c: Cell) -> Result<[Option<Cell>; 9], ModelError> {
  let verts = cell_vertices(n, c);
  let keys: Vec<VKey> = verts
    .iter()
    .map(|&(x, y)| canon_vertex(n, x, y).ok_or_else(|| ModelError(format!("vertex of {:?} in gap", c))))
    .collect::<Result<_, _>>()?;
  let mut others: BTreeSet<Cell> = BTreeSet::new();
  for &(x, y) in verts.iter() {
    for o in cells_touching_vertex(n, x, y) {
      if o != c {
        others.insert(o);
      }
    }
  }
  let mut res: [Option<Cell>; 9] = [None; 9];
  res[C] = Some(c);
  for o in others {
    let okeys: Vec<VKey> = cell_vertices(n, o)
      .iter()
      .map(|&(x, y)| canon_vertex(n, x, y).ok_or_else(|| ModelError(format!("vertex of {:?} in gap", o))))
      .collect::<Result<_, _>>()?;
    let mut mask = 0u8;
    for (k, key) in keys.iter().enumerate() {
      if okeys.contains(key) {
        mask |= 1 << k;
      }
    }
    let dir = match mask {
      0b0011 => SE,
      0b0110 => NE,
      0b1100 => NW,
      0b1001 => SW,
      0b0001 => S,
      0b0010 => E,
      0b0100 => N,
      0b1000 => W,
      _ => return Err(ModelError(format!("cells {:?} and {:?} share vertex pattern {:04b}", c, o, mask))),
    };
    if res[dir].is_some() {
      return Err(ModelError(format!("two neighbours of {:?} in direction {}", c, WIND_NAMES[dir])));
    }
    res[dir] = Some(o);
  }
  Ok(res)
}

/// Number of cells in ring `i_ring` (0 = northmost), `i_ring in [0, 4n-1)`.
pub fn ring_len(n: i64, i_ring: i64) -> i64 {
  let y = 2 * n - 1 - i_ring; // Y of the centres
  4 * (2 * n - y.abs()).min(n)
}

/// Number of cells in the rings strictly north of ring `i_ring`.
pub fn cells_before_ring(n: i64, i_ring: i64) -> i128 {
  let (n, r) = (n as i128, i_ring as i128);
  if r <= n {
    // rings 0..r-1 have 4,8,..,4r cells
    2 * r * (r + 1)
  } else if r <= 3 * n - 1 {
    2 * n * (n + 1) + (r - n) * 4 * n
  } else {
    // count from the south: rings r..4n-2 ; ring r has 4*(4n-1-r) cells
    let k = 4 * n - 1 - r; // cells per quadrant in ring r
    12 * n * n - 2 * k * (k + 1)
  }
}

/// RING index (by definition) of the cell of centre `(xc, yc)`.
pub fn ring_index_of_center(n: i64, xc: i64, yc: i64) -> u64 {
  let xc = xc.rem_euclid(8 * n);
  let i_ring = 2 * n - 1 - yc;
  let t = 2 * n - yc.abs(); // cells per quadrant in a polar ring
  let rank = if t < n {
    let q = xc / (2 * n);
    let m = (xc - ((2 * q + 1) * n - t + 1)) / 2;
    q * t + m
  } else {
    xc / 2
  };
  (cells_before_ring(n, i_ring) + rank as i128) as u64
}

pub fn ring_index(n: i64, c: Cell) -> u64 {
  let (xc, yc) = cell_center(n, c);
  ring_index_of_center(n, xc, yc)
}

fn isqrt_u128(v: u128) -> u128 {
  if v == 0 {
    return 0;
  }
  let mut x = (v as f64).sqrt() as u128;
  while x * x > v {
    x -= 1;
  }
  while (x + 1) * (x + 1) <= v {
    x += 1;
  }
  x
}

/// Centre `(xc, yc)` of the cell of RING index `r` (exact integer arithmetic).
pub fn center_of_ring_index(n: i64, r: u64) -> (i64, i64) {
  let nn = n as i128;
  let r = r as i128;
  let north_cap = 2 * nn * (nn - 1); // cells in rings 0..n-2 (strict cap, 4k cells with k<n)
  let total = 12 * nn * nn;
  if r < north_cap {
    // largest k >= 0 with 2k(k+1) <= r ; ring index = k, k+1 cells per quadrant
    let mut k = ((isqrt_u128((1 + 2 * r) as u128) as i128) - 1) / 2;
    while 2 * k * (k + 1) > r {
      k -= 1;
    }
    while 2 * (k + 1) * (k + 2) <= r {
      k += 1;
    }
    let t = k + 1;
    let rank = r - 2 * k * (k + 1);
    let q = rank / t;
    let m = rank % t;
    let yc = 2 * nn - 1 - k;
    let xc = (2 * q + 1) * nn - t + 1 + 2 * m;
    (xc as i64, yc as i64)
  } else if r >= total - north_cap {
    let rr = total - 1 - r; // mirrored index counted from the south, reverse order
    let mut k = ((isqrt_u128((1 + 2 * rr) as u128) as i128) - 1) / 2;
    while 2 * k * (k + 1) > rr {
      k -= 1;
    }
    while 2 * (k + 1) * (k + 2) <= rr {
      k += 1;
    }
    let t = k + 1;
    let rank_rev = rr - 2 * k * (k + 1);
    let rank = 4 * t - 1 - rank_rev;
    let q = rank / t;
    let m = rank % t;
    let yc = -(2 * nn - 1 - k);
    let xc = (2 * q + 1) * nn - t + 1 + 2 * m;
    (xc as i64, yc as i64)
  } else {
    let e = r - north_cap;
    let i_ring = (nn - 1) + e / (4 * nn);
    let rank = e % (4 * nn);
    let yc = 2 * nn - 1 - i_ring;
    // parity: X = Y + n + 1 (mod 2)
    let par = (yc + nn + 1).rem_euclid(2);
    let xc = 2 * rank + par;
    (xc as i64, yc as i64)
  }
}

/// Descendant of `c` (nside n) at `delta` more levels with sub-coordinates (a, b).
pub fn descendant(c: Cell, delta: u8, a: u32, b: u32) -> Cell {
  Cell { b: c.b, i: (c.i << delta) | a, j: (c.j << delta) | b }
}

/// Self-tests of the model (DESIGN §2.5). Returns a description of the first failure.
pub fn self_test() -> Result<(), String> {
  // interleave round trip and known values
  if interleave(1, 0) != 1 || interleave(0, 1) != 2 || interleave(3, 0) != 5 || interleave(0xFFFF_FFFF, 0) != 0x5555_5555_5555_5555 {
    return Err("interleave known values".into());
  }
  for &(i, j) in &[(0u32, 0u32), (1, 2), (12345, 54321), (0x1FFF_FFFF, 0x1234_5678), (u32::MAX, u32::MAX)] {
    if deinterleave(interleave(i, j)) != (i, j) {
      return Err("interleave round trip".into());
    }
  }
  for n in 1..=16i64 {
    // 12 n^2 distinct centres, inverse test is the inverse
    let mut centres: Vec<(i64, i64, Cell)> = Vec::new();
    let mut seen = BTreeSet::new();
    for b in 0..12u8 {
      for i in 0..n as u32 {
        for j in 0..n as u32 {
          let c = Cell { b, i, j };
          let (x, y) = cell_center(n, c);
          if !seen.insert((x, y)) {
            return Err(format!("n={} duplicate centre {:?}", n, (x, y)));
          }
          if cell_from_center(n, x, y) != Some(c) {
            return Err(format!("n={} cell_from_center mismatch for {:?}", n, c));
          }
          centres.push((x, y, c));
        }
      }
    }
    // ring closed form vs brute-force sort
    centres.sort_by(|a, b| b.1.cmp(&a.1).then(a.0.cmp(&b.0)));
    for (r, &(x, y, c)) in centres.iter().enumerate() {
      if ring_index(n, c) != r as u64 {
        return Err(format!("n={} ring index of {:?}: closed form {} vs sort {}", n, c, ring_index(n, c), r));
      }
      if center_of_ring_index(n, r as u64) != (x, y) {
        return Err(format!("n={} centre of ring index {}: {:?} vs {:?}", n, r, center_of_ring_index(n, r as u64), (x, y)));
      }
    }
    // ring lengths
    let mut tot = 0i128;
    for ir in 0..(4 * n - 1) {
      if cells_before_ring(n, ir) != tot {
        return Err(format!("n={} cells_before_ring({})", n, ir));
      }
      tot += ring_len(n, ir) as i128;
    }
    if tot != 12 * (n as i128) * (n as i128) {
      return Err(format!("n={} ring lengths do not sum to 12n^2", n));
    }
    // neighbours: symmetric, 8 / 7 / 6, opposite direction inside a base cell
    if n <= 8 {
      let mut n7 = 0;
      for &(_, _, c) in centres.iter() {
        let nb = neighbours(n, c).map_err(|e| e.0)?;
        let cnt = nb.iter().enumerate().filter(|(d, o)| *d != C && o.is_some()).count();
        let expect_ok = if n == 1 { cnt == 6 } else { cnt == 8 || cnt == 7 };
        if !expect_ok {
          return Err(format!("n={} cell {:?} has {} neighbours", n, c, cnt));
        }
        if cnt == 7 {
          n7 += 1;
        }
        for (d, o) in nb.iter().enumerate() {
          if d == C {
            continue;
          }
          if let Some(o) = o {
            let back = neighbours(n, *o).map_err(|e| e.0)?;
            if !back.iter().enumerate().any(|(dd, x)| dd != C && *x == Some(c)) {
              return Err(format!("n={} asymmetry {:?} -> {:?}", n, c, o));
            }
          }
        }
      }
      if n > 1 && n7 != 24 {
        return Err(format!("n={} expected 24 cells with 7 neighbours, got {}", n, n7));
      }
    }
  }
  // worked example of Appendix A: base cell 0 at depth 0
  let nb = neighbours(1, Cell { b: 0, i: 0, j: 0 }).map_err(|e| e.0)?;
  let want: [(usize, Option<u8>); 8] =
    [(SE, Some(5)), (SW, Some(4)), (S, Some(8)), (NE, Some(1)), (NW, Some(3)), (N, Some(2)), (E, None), (W, None)];
  for (d, w) in want.iter() {
    if nb[*d].map(|c| c.b) != *w {
      return Err(format!("depth-0 neighbour of 0 towards {}: {:?}", WIND_NAMES[*d], nb[*d]));
    }
  }
  // big-n sanity: poles and ring inverse at n = 2^29 and a non power of two
  for &n in &[1i64 << 29, 94906267, 3, 1000003] {
    for &r in &[0u64, 1, 3, 4, 5, 11, 12, 2 * (n as u64) * (n as u64 - 1), 6 * (n as u64) * (n as u64), 12 * (n as u64) * (n as u64) - 1] {
      if r >= 12 * (n as u64) * (n as u64) {
        continue;
      }
      let (x, y) = center_of_ring_index(n, r);
      if ring_index_of_center(n, x, y) != r {
        return Err(format!("n={} ring round trip at {}", n, r));
      }
      if cell_from_center(n, x, y).is_none() {
        return Err(format!("n={} centre of ring {} is not a cell", n, r));
      }
    }
  }
  Ok(())
}
