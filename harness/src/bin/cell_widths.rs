use hpxv::model::geom;
use hpxv::model::lattice::Cell;
fn edge_pts(n: i64, c: Cell, e: usize, k: usize) -> Vec<(f64, f64)> {
  let (xc, yc) = geom::cell_center_plane(n, c);
  let h = 1.0 / n as f64;
  let corners = [(0.0, -h), (h, 0.0), (0.0, h), (-h, 0.0)];
  let (a, b) = (corners[e], corners[(e + 1) % 4]);
  (0..=k).map(|s| { let f = s as f64 / k as f64; geom::unproj_ref(xc + a.0 + f * (b.0 - a.0), yc + a.1 + f * (b.1 - a.1)) }).collect()
}
fn main() {
  hpxv::engine::install_panic_hook();
  for d in 1..=7u8 {
    let n = 1i64 << d;
    let t = hpxv::props::c16::threshold_by_bisection(d);
    let mut best = (f64::INFINITY, Cell { b: 0, i: 0, j: 0 }, 0);
    for b in [0u8, 4u8] {
      for i in 0..n as u32 { for j in 0..n as u32 {
        let c = Cell { b, i, j };
        for e in 0..2 {
          let p = edge_pts(n, c, e, 40);
          let q = edge_pts(n, c, e + 2, 40);
          let mut m = f64::INFINITY;
          for a in &p { for bb in &q { let dd = geom::ang_dist(a.0, a.1, bb.0, bb.1); if dd < m { m = dd; } } }
          if m < best.0 { best = (m, c, e); }
        }
      }}
    }
    let (lon, lat) = geom::cell_center_sphere(n, best.1);
    println!("depth {} table {:.6e} true min width {:.6e} ratio {:.4} at {:?} edge {} centre ({:.4},{:.4})", d, t, best.0, best.0 / t, best.1, best.2, lon, lat);
  }
}
