//! hpxv command line: selftest | profiles <Cxx> | run <Cxx> ... | replay <file> ... | merge ...

use hpxv::engine::*;
use hpxv::model::{bmoc, geom, lattice};
use hpxv::props;
use serde_json::Value;
use std::time::Instant;

fn arg_val(args: &[String], name: &str) -> Option<String> {
  args.iter().position(|a| a == name).and_then(|i| args.get(i + 1).cloned())
}

fn self_test() -> Result<(), String> {
  lattice::self_test().map_err(|e| format!("lattice model: {}", e))?;
  geom::self_test().map_err(|e| format!("geometry model: {}", e))?;
  bmoc::self_test().map_err(|e| format!("bmoc model: {}", e))?;
  Ok(())
}

fn verif_root() -> String {
  std::env::var("VERIF_ROOT").unwrap_or_else(|_| "/verif".to_string())
}

fn make_ctx(prop: &str, tier: Tier, seed: u64, profile: &str) -> Result<Ctx, String> {
  let known = load_known_findings(&format!("{}/known_findings.json", verif_root()))?;
  let workers = std::env::var("VERIF_WORKERS").ok().and_then(|s| s.parse().ok()).unwrap_or_else(|| std::thread::available_parallelism().map(|n| n.get()).unwrap_or(8));
  Ok(Ctx {
    prop: prop.to_string(),
    tier,
    seed,
    profile: profile.to_string(),
    workers,
    known,
    strict: false,
    start: Instant::now(),
    replay_dir: format!("{}/replays", verif_root()),
    shrink_iters: std::sync::atomic::AtomicU32::new(4096),
  })
}

fn print_outcome(ctx: &Ctx, rep: &Report) -> i32 {
  let mut known: std::collections::BTreeMap<String, u64> = Default::default();
  for s in &rep.sections {
    for (k, v) in &s.rec.known_hits {
      *known.entry(k.clone()).or_insert(0) += v;
    }
  }
  for (id, hits) in &known {
    let what = ctx.known.iter().find(|k| &k.id == id).map(|k| k.what.clone()).unwrap_or_default();
    println!("KNOWN-FINDING: property={} {} [{}; {} matching case(s) in profile {}]", ctx.prop, what, id, hits, ctx.profile);
  }
  for v in &rep.violations {
    println!("VIOLATION property={} replay={}", ctx.prop, v.replay_path);
    println!("  detail: [{} / {} / {} / profile {}] {}", v.section, v.violation.check, v.violation.kind, ctx.profile, v.violation.detail);
  }
  if rep.violations.iter().any(|v| v.violation.check == "harness") {
    return 2;
  }
  if rep.violations.is_empty() {
    0
  } else {
    1
  }
}

fn main() {
  install_panic_hook();
  // watchdog: a run that does not end is reported as inconclusive (exit 2), never as a violation
  let wd: u64 = std::env::var("VERIF_WATCHDOG_S").ok().and_then(|s| s.parse().ok()).unwrap_or(6 * 3600);
  std::thread::spawn(move || {
    std::thread::sleep(std::time::Duration::from_secs(wd));
    eprintln!("INCONCLUSIVE: watchdog expired after {} s", wd);
    std::process::exit(2);
  });
  if std::env::var("HPXV_NO_WARMUP").is_err() {
    hpxv::sut::warm_up();
  }
  let args: Vec<String> = std::env::args().collect();
  let cmd = args.get(1).map(|s| s.as_str()).unwrap_or("");
  let code = match cmd {
    "selftest" => match self_test() {
      Ok(()) => {
        println!("model self-tests passed");
        0
      }
      Err(e) => {
        eprintln!("SELF-TEST FAILURE (harness problem, not a verdict): {}", e);
        2
      }
    },
    "profiles" => {
      let id = args.get(2).cloned().unwrap_or_default();
      match props::registry().into_iter().find(|p| p.id == id) {
        Some(p) => {
          println!("{}", p.profiles.join(" "));
          0
        }
        None => {
          eprintln!("unknown property {}", id);
          2
        }
      }
    }
    "list" => {
      for p in props::registry() {
        println!("{}", p.id);
      }
      0
    }
    "run" => {
      let id = args.get(2).cloned().unwrap_or_default();
      let tier = match arg_val(&args, "--tier").as_deref() {
        Some("thorough") => Tier::Thorough,
        _ => Tier::Quick,
      };
      let seed: u64 = arg_val(&args, "--seed").and_then(|s| s.parse().ok()).unwrap_or(0);
      let profile = arg_val(&args, "--profile").unwrap_or_else(|| "release".to_string());
      set_profile(&profile);
      let part = arg_val(&args, "--part");
      if let Err(e) = self_test() {
        eprintln!("SELF-TEST FAILURE (harness problem, not a verdict): {}", e);
        std::process::exit(2);
      }
      let entry = match props::registry().into_iter().find(|p| p.id == id) {
        Some(p) => p,
        None => {
          eprintln!("unknown property {}", id);
          std::process::exit(2);
        }
      };
      let ctx = match make_ctx(&id, tier, seed, &profile) {
        Ok(c) => c,
        Err(e) => {
          eprintln!("cannot load known findings: {}", e);
          std::process::exit(2);
        }
      };
      let mut rep = Report::default();
      (entry.run)(&ctx, &mut rep);
      let meta = (entry.meta)();
      let ev = evidence_part(&ctx, &meta, &rep);
      if let Some(p) = part {
        if let Err(e) = std::fs::write(&p, serde_json::to_string_pretty(&ev).unwrap()) {
          eprintln!("cannot write {}: {}", p, e);
          std::process::exit(2);
        }
      }
      let evals: u64 = rep.sections.iter().map(|s| s.rec.evaluations).sum();
      println!("{} [{} / {} / seed {}]: {} evaluations in {:.1}s, {} violation(s)", id, tier.name(), profile, seed, evals, ctx.start.elapsed().as_secs_f64(), rep.violations.len());
      print_outcome(&ctx, &rep)
    }
    "replay" => {
      let file = args.get(2).cloned().unwrap_or_default();
      let profile = arg_val(&args, "--profile").unwrap_or_else(|| "release".to_string());
      set_profile(&profile);
      let txt = match std::fs::read_to_string(&file) {
        Ok(t) => t,
        Err(e) => {
          eprintln!("cannot read {}: {}", file, e);
          std::process::exit(2);
        }
      };
      let v: Value = match serde_json::from_str(&txt) {
        Ok(v) => v,
        Err(e) => {
          eprintln!("cannot parse {}: {}", file, e);
          std::process::exit(2);
        }
      };
      let id = v["property"].as_str().unwrap_or("").to_string();
      let section = v["section"].as_str().unwrap_or("").to_string();
      // a replay recorded under one profile is only meaningful in the profiles the property uses
      let entry = match props::registry().into_iter().find(|p| p.id == id) {
        Some(p) => p,
        None => {
          eprintln!("unknown property {}", id);
          std::process::exit(2);
        }
      };
      let ctx = match make_ctx(&id, Tier::Quick, v["seed"].as_u64().unwrap_or(0), &profile) {
        Ok(c) => c,
        Err(e) => {
          eprintln!("cannot load known findings: {}", e);
          std::process::exit(2);
        }
      };
      let mut rep = Report::default();
      if let Err(e) = (entry.replay)(&ctx, &mut rep, &section, &v["case"]) {
        eprintln!("replay error: {}", e);
        std::process::exit(2);
      }
      let part = arg_val(&args, "--part");
      if let Some(p) = part {
        let meta = (entry.meta)();
        let ev = evidence_part(&ctx, &meta, &rep);
        let _ = std::fs::write(&p, serde_json::to_string_pretty(&ev).unwrap());
      }
      let c = print_outcome(&ctx, &rep);
      let known_hit = rep.sections.iter().any(|s| !s.rec.known_hits.is_empty());
      if c == 0 && !known_hit {
        println!("replay {}: property holds on this input (profile {})", file, profile);
      } else if c == 0 {
        println!("replay {}: still fails, as recorded in known_findings.json (profile {})", file, profile);
      }
      c
    }
    "merge" => {
      let out = arg_val(&args, "--out").unwrap_or_default();
      let mut parts = vec![];
      let mut i = 2;
      while i < args.len() {
        if args[i] == "--out" {
          i += 2;
          continue;
        }
        match std::fs::read_to_string(&args[i]).ok().and_then(|t| serde_json::from_str::<Value>(&t).ok()) {
          Some(v) => parts.push(v),
          None => {
            eprintln!("cannot read part {}", args[i]);
            std::process::exit(2);
          }
        }
        i += 1;
      }
      if parts.is_empty() {
        eprintln!("no parts to merge");
        std::process::exit(2);
      }
      let ev = merge_parts(&parts);
      if let Err(e) = std::fs::write(&out, serde_json::to_string_pretty(&ev).unwrap()) {
        eprintln!("cannot write {}: {}", out, e);
        std::process::exit(2);
      }
      0
    }
    _ => {
      eprintln!("usage: hpxv selftest | list | profiles <Cxx> | run <Cxx> [--tier quick|thorough] [--seed N] [--profile tag] [--part out.json] | replay <file> [--profile tag] | merge <parts..> --out <file>");
      2
    }
  };
  std::process::exit(code);
}
