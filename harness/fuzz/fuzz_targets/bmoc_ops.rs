#![no_main]
//! bytes -> two BMOC specifications (mixed flags, clustered cells) -> oracles of C08 (three-valued
//! semantics, which contains C07's set semantics) and the view checks of C09.
use arbitrary::Unstructured;
use hpxv::engine::Rec;
use hpxv::model::bmoc::{self as mb, MCell};
use hpxv::props::bmoc_common::Spec;
use libfuzzer_sys::fuzz_target;
use std::sync::Once;

static INIT: Once = Once::new();

fn spec(u: &mut Unstructured, dm: u8, anchors: &[u64; 3]) -> Spec {
  let n = u.int_in_range(0usize..=24).unwrap_or(0);
  let nl = mb::n_leaves(dm);
  let mut cand: Vec<MCell> = vec![];
  for _ in 0..n {
    let ai = u.int_in_range(0usize..=2).unwrap_or(0);
    let d = dm.saturating_sub(u.int_in_range(0u8..=3).unwrap_or(0)).min(if u.ratio(1u8, 6u8).unwrap_or(false) { 0 } else { 29 });
    let off = u.int_in_range(-4i64..=4).unwrap_or(0);
    let full = u.arbitrary().unwrap_or(true);
    let nd = 12u64 << (2 * d as u32);
    let a = anchors[ai] % nl;
    let h = ((a >> (2 * (dm - d) as u32)) as i64 + off).max(0).min(nd as i64 - 1) as u64;
    cand.push(MCell { depth: d, hash: h, full });
  }
  cand.sort_by_key(|c| (mb::leaf_range(dm, c).0, c.depth));
  let mut out = vec![];
  let mut end = 0u64;
  for c in cand {
    let (s, e) = mb::leaf_range(dm, &c);
    if s >= end {
      out.push(c);
      end = e;
    }
  }
  Spec::from_mcells(dm, &out, "fuzz")
}

fuzz_target!(|data: &[u8]| {
  INIT.call_once(|| {
    hpxv::engine::install_panic_hook();
  });
  let mut u = Unstructured::new(data);
  let dm1 = u.int_in_range(0u8..=29).unwrap_or(1);
  let dm2 = if u.arbitrary().unwrap_or(true) { dm1 } else { u.int_in_range(0u8..=29).unwrap_or(1) };
  let fr: [u64; 3] = [u.arbitrary().unwrap_or(0), u.arbitrary().unwrap_or(0), u.arbitrary().unwrap_or(0)];
  // anchors as fractions of the leaf universe so that both BMOCs cluster at the same places
  let anchor = |dm: u8| -> [u64; 3] {
    let nl = mb::n_leaves(dm) as u128;
    [((fr[0] as u128 * nl) >> 64) as u64, ((fr[1] as u128 * nl) >> 64) as u64, ((fr[2] as u128 * nl) >> 64) as u64]
  };
  let a = spec(&mut u, dm1, &anchor(dm1));
  let b = spec(&mut u, dm2, &anchor(dm2));
  let mut rec = Rec::new();
  use hpxv::engine::{fuzz_verdict, fuzz_wants};
  if fuzz_wants("C08") {
    fuzz_verdict("C08", hpxv::props::c08::check_pair(&hpxv::props::c08::Pair { a: a.clone(), b: b.clone() }, &mut rec));
  }
  if fuzz_wants("C07") {
    // ordinary MOCs: the full cells of both operands, packed (done by the oracle) and unpacked
    let full = |s: &Spec| Spec::from_mcells(s.depth_max, &s.mcells().into_iter().filter(|c| c.full).collect::<Vec<_>>(), "fuzz");
    for packed in [true, false] {
      fuzz_verdict("C07", hpxv::props::c07::check_pair(&hpxv::props::c07::Pair { a: full(&a), b: full(&b), packed }, &mut rec));
    }
  }
  if fuzz_wants("C09") {
    // views of the operands and of a chain of results
    let (x, y) = (hpxv::props::bmoc_common::build(&a), hpxv::props::bmoc_common::build(&b));
    for (name, r) in [("a", &x), ("b", &y)] {
      if r.get_depth_max() <= 8 {
        fuzz_verdict("C09", hpxv::props::c09::check_views(name, r).map(|_| ()));
      }
    }
    let chain = x.or(&y).xor(&x.not()).and(&y.not());
    if chain.get_depth_max() <= 8 {
      fuzz_verdict("C09", hpxv::props::c09::check_views("(a or b) xor not(a) and not(b)", &chain).map(|_| ()));
    }
  }
});
