#![no_main]
//! bytes -> (depth, lon, lat) folded into the domain of C01/C02/C03(d)/C19 -> the oracles of hpxv.
use arbitrary::Unstructured;
use hpxv::engine::Rec;
use hpxv::gens::Pos;
use libfuzzer_sys::fuzz_target;
use std::sync::Once;

static INIT: Once = Once::new();

fn fold(bits: u64, lo: f64, hi: f64) -> f64 {
  let v = f64::from_bits(bits);
  if v.is_finite() && v >= lo && v <= hi {
    return v;
  }
  // map the raw bits uniformly into [lo, hi]
  lo + (hi - lo) * ((bits >> 11) as f64 / (1u64 << 53) as f64)
}

fuzz_target!(|data: &[u8]| {
  INIT.call_once(|| {
    hpxv::engine::install_panic_hook();
    hpxv::sut::warm_up();
  });
  let mut u = Unstructured::new(data);
  let depth = u.int_in_range(0u8..=29).unwrap_or(0);
  let kind = u.int_in_range(0u8..=3).unwrap_or(0);
  let lon_bits: u64 = u.arbitrary().unwrap_or(0);
  let lat_bits: u64 = u.arbitrary().unwrap_or(0);
  let (k, n1, n2): (i8, i8, i8) = (u.int_in_range(-16i8..=16).unwrap_or(0), u.int_in_range(-2i8..=2).unwrap_or(0), u.int_in_range(-2i8..=2).unwrap_or(0));
  let half_pi = std::f64::consts::FRAC_PI_2;
  let (lon, lat) = match kind {
    // meridians k*pi/4 +- ulps
    0 => (hpxv::model::geom::nudge(k as f64 * std::f64::consts::FRAC_PI_4, n1 as i32), hpxv::model::geom::nudge(fold(lat_bits, -half_pi, half_pi), n2 as i32)),
    // transition latitude +- ulps
    1 => (fold(lon_bits, -25.0, 25.0), hpxv::model::geom::nudge(hpxv::model::geom::transition_latitude(), n2 as i32) * if k < 0 { -1.0 } else { 1.0 }),
    _ => (fold(lon_bits, -25.0, 25.0), fold(lat_bits, -half_pi, half_pi)),
  };
  let lat = lat.max(-half_pi).min(half_pi);
  let pos = Pos::new(lon, lat, "fuzz");
  let mut rec = Rec::new();
  use hpxv::engine::{fuzz_verdict, fuzz_wants};
  if fuzz_wants("C01") {
    fuzz_verdict("C01", hpxv::props::c01::check_hash(&hpxv::props::c01::Case { depth, pos: pos.clone() }, &mut rec));
  }
  if fuzz_wants("C02") {
    fuzz_verdict("C02", hpxv::props::c02::check(&hpxv::props::c02::Case { pos: pos.clone() }, &mut rec));
  }
  if fuzz_wants("C03") {
    fuzz_verdict("C03", hpxv::props::c03::check_pos(&hpxv::props::c03::PosCase { depth, pos: pos.clone() }, &mut rec));
  }
  if fuzz_wants("C19") {
    fuzz_verdict("C19", hpxv::props::c19::check(&hpxv::props::c19::Case { depth, pos }, &mut rec));
  }
});
