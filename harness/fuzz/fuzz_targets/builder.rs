#![no_main]
//! bytes -> push history of the fixed-depth builder -> oracle of C15.
use arbitrary::Unstructured;
use hpxv::engine::Rec;
use hpxv::props::c15::{check_pushes, Pushes, Seg};
use libfuzzer_sys::fuzz_target;
use std::sync::Once;

static INIT: Once = Once::new();

fuzz_target!(|data: &[u8]| {
  INIT.call_once(|| {
    hpxv::engine::install_panic_hook();
  });
  let mut u = Unstructured::new(data);
  let depth = u.int_in_range(0u8..=29).unwrap_or(0);
  let full: bool = u.arbitrary().unwrap_or(true);
  let capacity = *u.choose(&[1usize, 2, 3, 4, 5, 7, 8, 16, 17, 63, 64, 10_000]).unwrap_or(&4);
  let n = 12u64 << (2 * depth as u32);
  let nseg = u.int_in_range(0usize..=16).unwrap_or(0);
  let mut segs = vec![];
  for _ in 0..nseg {
    let kind = u.int_in_range(0u8..=3).unwrap_or(0);
    let raw: u64 = u.arbitrary().unwrap_or(0);
    let k = u.int_in_range(0u32..=(depth as u32).min(5)).unwrap_or(0);
    let aligned: bool = u.arbitrary().unwrap_or(false);
    let off = u.int_in_range(-2i64..=2).unwrap_or(0);
    let mut start = raw % n;
    if aligned {
      start = ((((start >> (2 * k)) << (2 * k)) as i64 + off).max(0) as u64).min(n - 1);
    }
    let len = if u.arbitrary().unwrap_or(false) { ((1i32 << (2 * u.int_in_range(0u32..=4).unwrap_or(0))) + u.int_in_range(-1i32..=1).unwrap_or(0)).max(1) as u32 } else { u.int_in_range(1u32..=130).unwrap_or(1) };
    segs.push(Seg { kind, start, len });
  }
  // one input in four: the builder is used again after a to_bmoc() in the middle
  let reuse = if u.int_in_range(0u8..=3).unwrap_or(0) == 0 { Some(u.int_in_range(0u16..=1000).unwrap_or(500)) } else { None };
  let mut rec = Rec::new();
  hpxv::engine::fuzz_verdict("C15", check_pushes(&Pushes { depth, full, capacity, segs, reuse }, &mut rec));
});
