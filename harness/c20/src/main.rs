//! hpxv_c20: tiny interpreter of "thread programs" used by the C20 check (first use of the lazily
//! initialised per-depth tables from several threads).  Native child process and Miri target.
//!
//! usage: hpxv_c20 <par|seq> <program>
//!   program = thread ('|' thread)*        thread = skew ':' op (',' op)*
//!   op = 'L'<depth>  layer: address, hash, centre, neighbours, n_hash through get_or_create(depth)
//!      | 'C'<depth>  cell-size constants of that depth (three latitude regimes)
//!      | 'K'<depth>  small cone coverage at that depth (uses both tables)
//!      | 'E'<depth>  elliptical cone, custom variant with delta_depth = 1 (layers d and d + 1)
//!      | 'S'<depth>  1500 cones smaller than a cell at that depth (layers d..d+4, no recursion)
//! Output: one line per op result "t<thread> <op> <values>", then "count L<d>=<k>" / "count C<d>=<k>".

use cdshealpix::nested;
use std::sync::{Arc, Barrier};

fn run_op(op: &str) -> String {
  let kind = &op[..1];
  let d: u8 = op[1..].parse().expect("depth");
  match kind {
    "L" => {
      let layer = nested::get_or_create(d);
      let addr = layer as *const nested::Layer as usize;
      let h = layer.hash(1.0, 0.5);
      let (cl, cb) = layer.center(h);
      let nb: Vec<u64> = layer.neighbours(h, true).sorted_values_vec();
      // more of the layer's fields: a polar-cap position, the corner cells of the sphere (seam tables,
      // nside - 1, masks), the ring index of a cell
      let join = |v: Vec<u64>| v.iter().map(|x| x.to_string()).collect::<Vec<_>>().join(",");
      let hp = layer.hash(0.3, 1.3);
      let last = layer.n_hash() - 1;
      let nb0 = join(layer.neighbours(0, false).sorted_values_vec());
      let nbl = join(layer.neighbours(last, false).sorted_values_vec());
      let ring = layer.to_ring(h);
      let back = layer.from_ring(ring);
      format!(
        "addr={:x} depth={} n_hash={} hash={} centre={:x},{:x} nb={:?} polar={} nb0={} nbl={} ring={} back={}",
        addr, layer.depth(), layer.n_hash(), h, cl.to_bits(), cb.to_bits(), nb, hp, nb0, nbl, ring, back
      )
    }
    "C" => {
      let a = cdshealpix::largest_center_to_vertex_distance(d, 1.0, 0.9);
      let b = cdshealpix::largest_center_to_vertex_distance(d, 1.0, 0.5);
      let c = cdshealpix::largest_center_to_vertex_distance(d, 1.0, 0.1);
      format!("c2v={:x},{:x},{:x}", a.to_bits(), b.to_bits(), c.to_bits())
    }
    "K" => {
      let r = 3.0 / (1u64 << d) as f64;
      let b = nested::cone_coverage_approx(d, 1.0, 0.5, r.min(3.0));
      let mut acc: u64 = 1469598103934665603;
      for e in b.entries.iter() {
        acc = (acc ^ *e).wrapping_mul(1099511628211);
      }
      format!("cone_entries={} digest={:x}", b.entries.len(), acc)
    }
    "S" => {
      // many cones smaller than a cell (the branch without recursion: centre cell + neighbours taken at the
      // starting depth of the radius, i.e. through the layers of depth d .. d+4), radii alternating between
      // four starting-depth classes, centres walking around the sphere: a hot loop that other threads run
      // at the same time with other depths
      let rounds: u32 = if cfg!(miri) { 4 } else { 1500 }; // (4 rounds = the four radius classes: the same layers are touched)
      let mut acc: u64 = 1469598103934665603;
      for it in 0..rounds {
        let k = (it % 4) as u8;
        let r = 0.4 / (1u64 << (d + k).min(29)) as f64;
        let lon = 0.1 + 0.37 * it as f64 % 6.0;
        let lat = -1.2 + 0.0016 * (it % 1500) as f64;
        let b = nested::cone_coverage_approx(d, lon, lat, r);
        for e in b.entries.iter() {
          acc = (acc ^ *e).wrapping_mul(1099511628211);
        }
        acc = (acc ^ b.entries.len() as u64).wrapping_mul(1099511628211);
      }
      format!("small_cones digest={:x}", acc)
    }
    "E" => {
      // elliptical cone through the 'custom' variant: the computation is made at depth d + 1, whose layer
      // must come from the shared table like any other
      let a = 2.5 / (1u64 << d) as f64;
      let b = nested::elliptical_cone_coverage_custom(d, 1, 1.0, 0.5, a.min(1.5), 0.4 * a.min(1.5), 0.3);
      let mut acc: u64 = 1469598103934665603;
      for e in b.entries.iter() {
        acc = (acc ^ *e).wrapping_mul(1099511628211);
      }
      format!("ell_entries={} digest={:x}", b.entries.len(), acc)
    }
    _ => panic!("unknown op {}", op),
  }
}

fn spin(k: u64) {
  let mut x = 0u64;
  for i in 0..k {
    x = x.wrapping_add(std::hint::black_box(i));
  }
  std::hint::black_box(x);
}

fn main() {
  let args: Vec<String> = std::env::args().collect();
  let mode = args.get(1).map(|s| s.as_str()).unwrap_or("par");
  let prog = args.get(2).cloned().unwrap_or_else(|| "0:L3|0:L3".to_string());
  let threads: Vec<(u64, Vec<String>)> = prog
    .split('|')
    .map(|t| {
      let (skew, ops) = t.split_once(':').expect("thread = skew:ops");
      (skew.parse().expect("skew"), ops.split(',').filter(|s| !s.is_empty()).map(|s| s.to_string()).collect())
    })
    .collect();
  let mut out: Vec<Vec<String>> = vec![vec![]; threads.len()];
  if mode == "seq" {
    for (t, (_, ops)) in threads.iter().enumerate() {
      for op in ops {
        out[t].push(format!("t{} {} {}", t, op, run_op(op)));
      }
    }
  } else {
    let barrier = Arc::new(Barrier::new(threads.len()));
    let handles: Vec<_> = threads
      .iter()
      .cloned()
      .enumerate()
      .map(|(t, (skew, ops))| {
        let barrier = barrier.clone();
        std::thread::spawn(move || {
          barrier.wait();
          spin(skew);
          ops.iter().map(|op| format!("t{} {} {}", t, op, run_op(op))).collect::<Vec<String>>()
        })
      })
      .collect();
    for (t, h) in handles.into_iter().enumerate() {
      out[t] = h.join().expect("thread panicked");
    }
  }
  for lines in out {
    for l in lines {
      println!("{}", l);
    }
  }
  #[cfg(cdshealpix_verif)]
  for d in 0..30u8 {
    let (l, c) = (cdshealpix::verif::layer_new_count(d), cdshealpix::verif::c2v_new_count(d));
    if l != 0 {
      println!("count L{}={}", d, l);
    }
    if c != 0 {
      println!("count C{}={}", d, c);
    }
  }
}
