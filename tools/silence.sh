#!/bin/bash
# tools/silence.sh <seed> ... : runs the quick tier of every check with the given seeds, prints exit codes
ROOT="$(cd "$(dirname "$0")/.." && pwd)"
for s in "$@"; do
  for p in $(python3 -c "import json;print(' '.join(c['property_id'] for c in json.load(open('$ROOT/MANIFEST.json'))['checks']))"); do
    t0=$(date +%s)
    out="$(VERIF_SEED=$s "$ROOT/check" $p --tier quick 2>&1)"; rc=$?
    echo "seed $s $p exit $rc $(( $(date +%s) - t0 ))s $(echo "$out" | grep -c '^VIOLATION') violation(s) $(echo "$out" | grep -c '^KNOWN-FINDING') known"
    if [ $rc -ne 0 ]; then echo "$out" | grep -A1 '^VIOLATION\|INCONCLUSIVE' | cut -c1-600; fi
  done
done
