#!/usr/bin/env python3
"""tools/write_metas.py <trial-log> <needs.json> <round-text> : fills seeded/<id>/meta.json from the log of tools/try_seeded.sh runs."""
import json,re,sys
log=open(sys.argv[1]).read(); needs=json.load(open(sys.argv[2])); rnd=sys.argv[3]
for b in re.split(r'#### ',log)[1:]:
    lines=b.strip().split('\n'); id=lines[0].split()[0]
    if id not in needs: continue
    tests=[l for l in lines if l.startswith('tests with')]
    demo=[l for l in lines if l.startswith('demo exit')]
    res=[]
    for c in [l for l in lines if l.startswith('check ')]:
        m=re.match(r'check (C\d+) \(quick\): exit (\d+) in (\d+)s ?(.*)',c)
        p,rc,sec,rest=m.groups()
        d=re.search(r'detail: \[([^\]]*)\] (.*)',rest)
        res.append(f"{p} quick: {'VIOLATION' if rc=='1' else 'exit '+rc+' (silent)' if rc=='0' else 'exit '+rc} in {sec} s" + (f" ({d.group(1)}: {d.group(2)[:150].strip()})" if d else ''))
    n=needs[id]
    meta={"id":id,"property":'C'+id[3:5],"origin":"independent sub-agent given only the text of the property and a scratch worktree of /repo ("+rnd+")",
      "needs_to_manifest":n if isinstance(n,str) else n[0],
      "confirmed":f"tools/try_seeded.sh {id}: patch applies to a fresh worktree of /repo HEAD; {tests[0] if tests else ''}; {demo[0] if demo else ''}",
      "checks":"; ".join(res)+('' if isinstance(n,str) else n[1])}
    json.dump(meta,open(f'/verif/seeded/{id}/meta.json','w'),indent=1)
    print(id,'ok')
