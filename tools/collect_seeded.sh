#!/bin/bash
# tools/collect_seeded.sh <prop> <seeded-id> : copies a sub-agent's deliverables from /tmp/wt-<prop> into seeded/<id>/
ROOT="$(cd "$(dirname "$0")/.." && pwd)"
P="$1"; ID="$2"; WT="${3:-/tmp/wt-$P}"
D="$ROOT/seeded/$ID"; mkdir -p "$D"
( cd "$WT" && git diff -- src > "$D/patch.diff" )
[ -s "$D/patch.diff" ] || cp "$WT/patch.diff" "$D/patch.diff"
cp "$WT/NOTES.md" "$D/NOTES.md" 2>/dev/null
rm -rf "$D/demo"; cp -r "$WT/demo" "$D/demo" 2>/dev/null; rm -rf "$D/demo/target"
[ -f "$D/meta.json" ] || cat > "$D/meta.json" <<EOM
{"id": "$ID", "property": "$P", "origin": "independent sub-agent given only the text of the property and a scratch worktree", "needs": "", "confirmed": {}, "checks": {}}
EOM
wc -l "$D/patch.diff"
