#!/bin/bash
# runs the thorough tier of every check, one after the other; prints one summary line per check
ROOT="$(cd "$(dirname "$0")/.." && pwd)"
cd "$ROOT"
./setup.sh >/dev/null 2>&1
for p in ${@:-C02 C04 C10 C18 C07 C08 C15 C01 C03 C06 C13 C09 C16 C17 C19 C11 C14 C12 C05 C20}; do
  t0=$(date +%s)
  out="$(./check $p --tier thorough 2>&1)"; rc=$?
  echo "THOROUGH $p exit $rc $(( $(date +%s) - t0 ))s violations=$(echo "$out" | grep -c '^VIOLATION') known=$(echo "$out" | grep -c '^KNOWN-FINDING')"
  echo "$out" | grep -E "^C[0-9]+ \[|^VIOLATION|^  detail|INCONCLUSIVE" | cut -c1-400
done
