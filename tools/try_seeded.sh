#!/bin/bash
# tools/try_seeded.sh <seeded-id> [check ids...]
# Confirms a seeded change kept under /verif/seeded/<id>/ and runs checks against it:
#  1. in a scratch worktree of /repo (under /tmp, removed afterwards): the patch applies, the crate builds,
#     the existing test-suite passes with it, the demonstration fails with it and passes without it;
#  2. applies the patch to /repo, runs the quick tier of the given checks (default: the property named
#     in meta.json), and undoes the patch straight afterwards.
# Prints one line per step; results are appended to seeded/<id>/runs.log.
set -u
ROOT="$(cd "$(dirname "$0")/.." && pwd)"
ID="$1"; shift
DIR="$ROOT/seeded/$ID"
[ -f "$DIR/patch.diff" ] || { echo "no $DIR/patch.diff"; exit 2; }
CHECKS="$*"
if [ -z "$CHECKS" ]; then CHECKS="$(python3 -c "import json;print(json.load(open('$DIR/meta.json'))['property'])")"; fi
LOG="$DIR/runs.log"
echo "== $(date -u +%FT%TZ) try_seeded $ID checks: $CHECKS" >>"$LOG"
export CARGO_NET_OFFLINE=true
if [ "${SKIP_CONFIRM:-0}" != "1" ]; then
  WT="/tmp/seeded-confirm-$ID"
  git -C /repo worktree remove --force "$WT" >/dev/null 2>&1
  git -C /repo worktree add -q --detach "$WT" HEAD || exit 2
  ( cd "$WT" && git apply "$DIR/patch.diff" ) || { echo "PATCH DOES NOT APPLY" | tee -a "$LOG"; git -C /repo worktree remove --force "$WT"; exit 2; }
  res="$(cd "$WT" && cargo test --workspace --no-fail-fast --offline 2>&1 | grep -E '^test result' | tr '\n' ' ')"
  echo "tests with the change: $res" | tee -a "$LOG"
  if [ -d "$DIR/demo" ]; then
    rm -rf "$WT/demo"; cp -r "$DIR/demo" "$WT/demo"; rm -rf "$WT/demo/target"
    ( cd "$WT/demo" && cargo run --offline --release -q >/dev/null 2>"$WT/demo.err" ); with=$?
    ( cd "$WT" && git apply -R "$DIR/patch.diff" )
    ( cd "$WT/demo" && cargo run --offline --release -q >/dev/null 2>"$WT/demo.err2" ); without=$?
    echo "demo exit status: with the change $with, without $without" | tee -a "$LOG"
  fi
  git -C /repo worktree remove --force "$WT"
fi
# run the checks on /repo with the patch applied
git -C /repo diff --quiet || { echo "/repo has uncommitted changes, refusing"; exit 2; }
git -C /repo apply "$DIR/patch.diff" || { echo "cannot apply to /repo"; exit 2; }
for c in $CHECKS; do
  start=$(date +%s)
  out="$("$ROOT/check" "$c" --tier "${TIER:-quick}" 2>&1)"; rc=$?
  el=$(( $(date +%s) - start ))
  first="$(echo "$out" | grep -m1 -A1 '^VIOLATION' | tr '\n' ' ' | cut -c1-400)"
  echo "check $c (${TIER:-quick}): exit $rc in ${el}s ${first}" | tee -a "$LOG"
done
git -C /repo checkout -- .
git -C /repo diff --quiet && echo "/repo restored" | tee -a "$LOG"
