#!/usr/bin/env python3
"""Regenerates /verif/MANIFEST.json from the table below (kept in one place so the file stays valid)."""
import json, os, subprocess
ROOT = os.path.dirname(os.path.dirname(os.path.abspath(__file__)))

# property -> (technique, level text, level note, design ref)
CHECKS = {
 "C01": ("property-based testing (proptest, 16 seeded runners): generated (depth, position) aimed at seams/cell borders/poles/extra turns vs. an independent integer-lattice + Calabretta-Roukema containment oracle; shrinking; both build profiles",
         "Generated-input search: 24M (quick) / 700M (thorough) positions x depths, in a release build and in a build with debug assertions + overflow checks; every returned cell is decoded by the harness' own lattice model and must contain the position in the projection plane; invalid latitudes must panic. Holds = no counter-example in the explored space (sampling of floats, no absence proof).",
         "Trusted: the harness' lattice model and reference projection (self-tested at start), tolerance tau=2^-44*max(1,|lon|*4/pi/8) plane units.", "DESIGN.md §4 C01"),
 "C02": ("property-based testing (proptest): metamorphic relation hash(d,p) == hash(29,p) >> 2(29-d) over generated positions on/next to borders of every depth; both build profiles",
         "Generated-input search over positions (2.4M quick / 70M thorough), each compared across all 30 depths, which implies every pair d<d'.",
         "Oracle is the crate against itself across depths (metamorphic); C01 anchors the deepest hash to the model.", "DESIGN.md §4 C02"),
 "C17": ("property-based testing (proptest): generated positions / plane points (facet borders, |y|=1, |y|=2, integer x +-ulps, log-uniform colatitudes) vs. reference Calabretta-Roukema formulae, sphere and plane round trips, rejection of invalid arguments, base cell vs. lattice model; both build profiles",
         "Generated-input search (22M quick / 1G thorough evaluations over 5 sub-checks) against an independent float reference and round-trip relations, tolerances stated in DESIGN.md.",
         "Trusted: harness' reference projection; plane points closer than 1e-12 to a pole are compared on y only.", "DESIGN.md §4 C17"),
}

NOT_YET = {}

def main():
    props = [json.loads(l) for l in open(os.path.join(ROOT, "properties.jsonl"))]
    ids = [p["id"] for p in props]
    checks = []
    for pid in ids:
        if pid not in CHECKS:
            continue
        tech, text, note, ref = CHECKS[pid]
        checks.append({
            "property_id": pid,
            "quick_cmd": f"./check {pid} --tier quick",
            "thorough_cmd": f"./check {pid} --tier thorough",
            "evidence_file": f"/verif/evidence/{pid}.json",
            "replay_cmd_template": f"./check {pid} --replay {{path}}",
            "engine": "hpxv",
            "level_claimed": {"category": "exploration", "text": text, "design_ref": ref},
            "level_note": note,
            "technique": tech,
        })
    na = [{"property_id": pid, "reason": NOT_YET.get(pid, "check not built yet (work in progress in this session); not claimed until its check exists and is silent on the unchanged tree")}
          for pid in ids if pid not in CHECKS]
    try:
        hooks = subprocess.check_output(["git", "-C", "/repo", "log", "--format=%h %s", "--grep=^hook:"], text=True).strip().splitlines()
    except Exception:
        hooks = []
    man = {
        "version": 1,
        "setup_cmd": "./setup.sh",
        "hooks": {
            "guard": "cdshealpix_verif",
            "enable": "RUSTFLAGS=\"--cfg cdshealpix_verif\" (set by ./check and ./setup.sh for every build of the harness, which path-depends on /repo)",
            "baseline_off_cmd": "cd /repo && cargo test --workspace --no-fail-fast --offline",
            "source_commits": [h.split()[0] for h in hooks],
            "add_only": True,
        },
        "engines": [
            {"name": "hpxv", "path": "/verif/harness", "serves_properties": sorted(CHECKS.keys()),
             "kind_free_text": "Rust binary: proptest TestRunner per worker (seeded from VERIF_SEED), exhaustive enumerators, independent reference model (integer lattice, projection, spherical geometry, BMOC interval model), evidence writer, replay"},
        ],
        "checks": checks,
        "not_applicable": na,
        "notes": "Every check: ./check <id> [--tier quick|thorough] rebuilds the harness against /repo's working tree (release, chk = debug-assertions+overflow-checks, and +bmi2 where relevant), replays committed regressions, runs the generated search, merges the per-profile parts into evidence/<id>.json. Exit 0 held / 1 VIOLATION / 2 inconclusive. Known findings: known_findings.json.",
    }
    with open(os.path.join(ROOT, "MANIFEST.json"), "w") as f:
        json.dump(man, f, indent=1)
        f.write("\n")

if __name__ == "__main__":
    main()
