#!/usr/bin/env python3
"""Writes seeded/RESULTS.md from the meta.json files."""
import json, glob, os
root=os.path.dirname(os.path.dirname(os.path.abspath(__file__)))
rows=[]
for f in sorted(glob.glob(os.path.join(root,'seeded','*','meta.json'))):
    m=json.load(open(f)); rows.append(m)
out=["# Seeded changes: which check catches which change","",
 "Each change was written by an independent sub-agent that saw only the text of one property and a scratch worktree of /repo (nothing from /verif). Kept only after confirmation in a fresh worktree: the patch applies, the crate builds, the 63 unit + 58 doc tests pass with it, the demonstration fails with it and passes without it (`tools/try_seeded.sh`). Checks were run with the patch applied to /repo (`git -C /repo apply`), which was restored straight afterwards.","",
 "| id | property | needs, in order to manifest | result of the quick tier |","|----|----------|-----------------------------|--------------------------|"]
for m in rows:
    out.append("| %s | %s | %s | %s |" % (m['id'], m['property'], m.get('needs_to_manifest','').replace('|','/'), m.get('checks','').replace('|','/')))
open(os.path.join(root,'seeded','RESULTS.md'),'w').write("\n".join(out)+"\n")
print(len(rows),'rows')
