#!/bin/bash
# extra/fuzz.sh <target> <prop> <tier> <seed> <part.json>
# Coverage-guided campaign (libFuzzer through cargo-fuzz, nightly, ASan + debug assertions) with the
# oracle of <prop> inside the target.  Only in the thorough tier; the quick tier replays the saved corpus.
set -u
ROOT="$(cd "$(dirname "$0")/.." && pwd)"
TARGET="$1"; PROP="$2"; TIER="$3"; SEED="$4"; PART="$5"
export VERIF_ROOT="$ROOT" CARGO_NET_OFFLINE=true HPXV_FUZZ_PROP="$PROP"
cd "$ROOT/harness" || exit 2
[ "$TIER" = "thorough" ] || exit 0
cargo +nightly fuzz --version >/dev/null 2>&1 || { echo "cargo-fuzz not available: fuzz tier skipped" >&2; exit 0; }
t0=$(date +%s)
RUSTFLAGS="--cfg cdshealpix_verif" cargo +nightly fuzz build "$TARGET" >"$ROOT/.logs/fuzz-build-$TARGET.log" 2>&1 || { echo "fuzz build failed, see .logs/fuzz-build-$TARGET.log" >&2; exit 2; }
CORPUS="$ROOT/harness/fuzz/corpus/$TARGET-$PROP"; ART="$ROOT/replays/fuzz-$TARGET-$PROP"
rm -rf "$CORPUS"; mkdir -p "$CORPUS" "$ART"
# a few seed inputs: zeros, ones, counting bytes
head -c 96 /dev/zero > "$CORPUS/zeros"; head -c 96 /dev/zero | tr '\0' '\377' > "$CORPUS/ones"; python3 -c "import sys;sys.stdout.buffer.write(bytes(range(200)))" > "$CORPUS/count"
RUNS="${VERIF_FUZZ_RUNS:-400000}"
[ "$SEED" = "0" ] && LSEED=1 || LSEED="$SEED"
JOBS="${VERIF_FUZZ_JOBS:-8}"
# a campaign also ends after MAXS seconds (the bmoc_ops target runs ~120 inputs/s per process on long
# histories: 400 000 runs would take an hour); ending on time is a normal end, the executed count is reported
MAXS="${VERIF_FUZZ_MAX_S:-1200}"
BIN="$ROOT/harness/fuzz/target/x86_64-unknown-linux-gnu/release/$TARGET"
[ -x "$BIN" ] || { echo "fuzz binary $BIN missing after the build" >&2; exit 2; }
# J independent libFuzzer processes (seeds LSEED*1000+k) sharing one corpus directory (each reloads the
# units found by the others); a crash of any of them ends the campaign of that job only
LOG="$ROOT/.logs/fuzz-run-$TARGET-$PROP.log"; : > "$LOG"
pids=""
for k in $(seq 1 "$JOBS"); do
  ASAN_OPTIONS=detect_odr_violation=0 "$BIN" "$CORPUS" -runs="$RUNS" -max_total_time="$MAXS" -seed="$(( LSEED * 1000 + k ))" -len_control=0 -max_len=400 -reload=1 -artifact_prefix="$ART/" -print_final_stats=1 >"$LOG.$k" 2>&1 &
  pids="$pids $!"
done
rc=0
for p in $pids; do wait "$p" || rc=1; done
execs=0
for k in $(seq 1 "$JOBS"); do
  e=$(grep -o 'stat::number_of_executed_units: *[0-9]*' "$LOG.$k" | grep -o '[0-9]*$' | tail -1); execs=$(( execs + ${e:-0} ))
  { echo "== job $k"; grep -m3 "violation\|panicked" "$LOG.$k"; tail -n 25 "$LOG.$k"; } >> "$LOG"; rm -f "$LOG.$k"
done
units=$(ls "$CORPUS" | wc -l)
viol=0; crashfile=""
if [ $rc -ne 0 ]; then
  crashfile=$(ls -t "$ART"/crash-* 2>/dev/null | head -1)
  if [ -n "$crashfile" ] && grep -q "$PROP violation" "$LOG"; then
    viol=1
    echo "VIOLATION property=$PROP replay=$crashfile"
    echo "  detail: [fuzz:$TARGET] $(grep -m1 "$PROP violation" "$LOG" | cut -c1-600)"
  elif [ -n "$crashfile" ]; then
    echo "INCONCLUSIVE: fuzz target $TARGET crashed without a $PROP violation message, see $LOG" >&2; exit 2
  else
    echo "INCONCLUSIVE: fuzz run failed, see $LOG" >&2; exit 2
  fi
fi
samples=$(python3 - "$CORPUS" <<'PY'
import sys,os,json
d=sys.argv[1]; fs=sorted(os.listdir(d))[:4]
print(json.dumps([{"corpus_unit":f,"hex":open(os.path.join(d,f),'rb').read()[:48].hex()} for f in fs]))
PY
)
cat > "$PART" <<EOJ
{"property_id":"$PROP","tier":"$TIER","seed":$SEED,"profile":"fuzz-$TARGET","evaluations":$execs,"distinct_nontrivial":$units,
 "distinct_nontrivial_is_lower_bound":false,"rule":"libFuzzer campaign on target $TARGET (bytes decoded into the structured case of the property, oracle inside the target, ASan + debug assertions); non-trivial = inputs kept in the corpus because they reached new coverage",
 "samples":$samples,"classes":{},"sections":[{"name":"libfuzzer:$TARGET","planned":$(( RUNS * JOBS )),"evaluations":$execs,"distinct_nontrivial":$units,"exhaustive":false,"wall_s":$(( $(date +%s) - t0 ))}],
 "exhaustive_subspaces":[],"known_findings_hit":{},"excluded_known":0,"metrics_max":{},"metrics_min":{},"violations":[],"notes":["$JOBS libFuzzer processes sharing a corpus, -seed=$LSEED*1000+k -runs=$RUNS -max_total_time=$MAXS each: approximately reproducible only; the saved input is the reproducible unit"],"assumptions":[],"wall_s":$(( $(date +%s) - t0 ))}
EOJ
[ $viol -eq 1 ] && exit 1
exit 0
