#!/bin/bash
exec "$(dirname "$0")/fuzz.sh" builder C15 "$@"
