#!/bin/bash
exec "$(dirname "$0")/fuzz.sh" hash_seams C19 "$@"
