#!/bin/bash
exec "$(dirname "$0")/fuzz.sh" bmoc_ops C08 "$@"
